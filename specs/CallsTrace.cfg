SPECIFICATION TSpec
CONSTANTS
  MaxItems = 3
  Devs = {}
INVARIANT TraceInv
PROPERTIES TLevelMonotone TDoneFinal TOutFinal TQFStepwise
POSTCONDITION Accepted
CHECK_DEADLOCK FALSE
