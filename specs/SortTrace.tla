------------------------------ MODULE SortTrace ------------------------------
(* Validates what the real sorters did: every logged comparison of a key    *)
(* must equal the specification's meaning of that key, and every logged     *)
(* <<keys, input, output>> must satisfy Sorted.                              *)
EXTENDS Sort, Json, IOUtils, TLC

Trace == ndJsonDeserialize(IOEnv.TRACE)

VARIABLES l, bad
Ev == Trace[l]

TInit == l = 1 /\ bad = 0

OK ==
  CASE Ev.ev = "Less" -> Ev.r = KeyLess(Ev.key, Ev.a, Ev.b)
    [] Ev.ev = "Sort" -> Sorted(Ev.ks, Ev["in"], Ev.out)
    [] OTHER -> FALSE

TNext ==
  /\ l <= Len(Trace)
  /\ l' = l + 1
  /\ IF OK THEN UNCHANGED bad
     ELSE PrintT(<<"BAD", l, Ev.c, Ev.ev>>) /\ bad' = bad + 1

TSpec == TInit /\ [][TNext]_<<l, bad>>
Accepted == PrintT(<<"DONE", TLCGet("stats").diameter>>)
=============================================================================
