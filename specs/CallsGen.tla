------------------------------ MODULE CallsGen ------------------------------
(***************************************************************************)
(* Generator instance of Calls: enumerates every lock-step behaviour (the  *)
(* environment acts only when the library has no step left) of a family of *)
(* scenarios and appends each complete history as one JSON line to the     *)
(* file named by the environment variable GEN_OUT.  The histories are the  *)
(* scripts the M1 driver replays against the real library.                 *)
(***************************************************************************)
EXTENDS Calls, Json, CSV, IOUtils

CONSTANTS MaxN, Family

VARIABLE hist
gvars == <<vars, hist>>

M(kind, pernode, custom) == [kind |-> kind, pernode |-> pernode, custom |-> custom]
MethodTab ==
  [Rpc |-> M("rpc", FALSE, FALSE), QC |-> M("qc", FALSE, FALSE), QCPerNode |-> M("qc", TRUE, FALSE),
   QCCustom |-> M("qc", FALSE, TRUE), QCCombo |-> M("qc", TRUE, TRUE),
   Async |-> M("async", FALSE, FALSE), AsyncPerNode |-> M("async", TRUE, FALSE),
   AsyncCustom |-> M("async", FALSE, TRUE),
   Corr |-> M("corr", FALSE, FALSE), CorrPerNode |-> M("corr", TRUE, FALSE), CorrCustom |-> M("corr", FALSE, TRUE),
   CorrStream |-> M("corrstream", FALSE, FALSE), CorrStreamCustom |-> M("corrstream", FALSE, TRUE),
   Mcast |-> M("mcast", FALSE, FALSE), McastPerNode |-> M("mcast", TRUE, FALSE), Ucast |-> M("ucast", FALSE, FALSE)]

PNFor(m, n) == IF MethodTab[m].pernode THEN [1..n -> {"same", "own", "skip"}]
               ELSE {[i \in 1..n |-> "same"]}
NoSkipCount(pn) == Cardinality({i \in DOMAIN pn : pn[i] # "skip"})

Sc(m, n, pn, qf, k, lv, nsw, vals) ==
  [method |-> m, kind |-> MethodTab[m].kind, custom |-> MethodTab[m].custom,
   n |-> n, pn |-> pn, qf |-> qf, k |-> k, lv |-> lv, nsw |-> nsw, vals |-> vals, fk |-> ""]

QCMethods   == {"QC", "QCPerNode", "QCCustom", "QCCombo", "Async", "AsyncPerNode", "AsyncCustom"}
CorrMethods == {"Corr", "CorrPerNode", "CorrCustom", "CorrStream", "CorrStreamCustom"}

\* C01: quorum functions and arrival orders; per-node patterns only "same"/"own"
F_C01 == UNION {UNION {
            {Sc(m, n, pn, "thr", k, "none", FALSE, {1}) :
                 pn \in {p \in PNFor(m, n) : \A i \in 1..n : p[i] # "skip"}, k \in 1..n+1}
            \cup {Sc(m, n, [i \in 1..n |-> "same"], "eq", 0, "none", FALSE, {1, 2})}
          : n \in 1..MaxN} : m \in QCMethods}
\* C02: thresholds, skipping (down to zero targets), both context causes
F_C02 == UNION {UNION {
            {Sc(m, n, pn, "thr", k, "none", FALSE, {1}) :
                 pn \in {p \in PNFor(m, n) : \A i \in 1..n : p[i] # "own"}, k \in 1..n+1}
          : n \in 1..MaxN} : m \in {"QC", "QCPerNode", "Async", "AsyncPerNode"}}
\* C06: every per-node function; one-way calls with and without send-waiting
F_C06 == UNION {UNION {
            {Sc(m, n, pn, "thr", Max(1, NoSkipCount(pn)), IF MethodTab[m].kind = "corr" THEN "count" ELSE "none", FALSE, {1}) :
                 pn \in PNFor(m, n)}
          : n \in 1..MaxN} : m \in {"QC", "QCPerNode", "AsyncPerNode", "CorrPerNode", "QCCombo"}}
         \cup UNION {{Sc(m, n, pn, "thr", 1, "none", b, {1}) : pn \in PNFor(m, n), b \in BOOLEAN}
                     : n \in 1..MaxN, m \in {"Mcast", "McastPerNode"}}
         \cup {Sc("Ucast", 1, [i \in 1..1 |-> "same"], "thr", 1, "none", b, {1}) : b \in BOOLEAN}
         \cup {Sc("Rpc", 1, [i \in 1..1 |-> "same"], "thr", 1, "none", FALSE, {1})}
\* C11: level functions, thresholds, streams, custom return types
F_C11 == UNION {UNION {
            {Sc(m, n, pn, "thr", k, lv, FALSE, IF lv = "nonmono" THEN {1, 2} ELSE {1}) :
                 pn \in {p \in PNFor(m, n) : \A i \in 1..n : p[i] # "own"},
                 k \in 1..n+1, lv \in {"count", "nonmono", "jump"}}
          : n \in 1..MaxN} : m \in CorrMethods}

\* C07: every subset of failing nodes, handler errors and connection failures
\* (fk: the server is stopped while the handler is pending / was stopped before
\* the call / was never started), striking at every position of the arrival order
F_C07 == UNION {UNION {
            {[Sc(m, n, [i \in 1..n |-> "same"], "thr", k, "none", FALSE, {1}) EXCEPT !.fk = f] :
                 k \in 1..n, f \in {"crash", "downbefore", "never"}}
          : n \in 2..MaxN} : m \in {"QC", "Async", "QCCustom"}}

Scenarios == CASE Family = "C01" -> F_C01
               [] Family = "C07" -> F_C07
               [] Family = "C02" -> F_C02
               [] Family = "C06" -> F_C06
               [] Family = "C11" -> F_C11
               [] OTHER -> F_C01 \cup F_C02 \cup F_C06 \cup F_C11

GInit == (\E s \in Scenarios : InitWith(s)) /\ hist = <<>>

Quiet == ~ENABLED Internal

\* the environment acts in lock-step: only before the call is issued (context
\* already ended) or when the library is quiescent
EnvStep ==
  \/ /\ pc = "waiting" /\ Quiet
     /\ \/ \E n \in Node, v \in sc.vals :
             NodeRespond(n, FALSE, v) /\ hist' = Append(hist, [a |-> "r", n |-> n, e |-> FALSE, v |-> v])
        \/ \E n \in Node :
             NodeRespond(n, TRUE, 0) /\ hist' = Append(hist, [a |-> "r", n |-> n, e |-> TRUE, v |-> 0])
        \/ \E n \in Node :
             StreamEnd(n) /\ hist' = Append(hist, [a |-> "end", n |-> n, e |-> FALSE, v |-> 0])
        \/ \E n \in Node :    \* the connection to node n fails (C07)
             /\ Family = "C07"
             /\ NodeRespond(n, TRUE, 0) /\ hist' = Append(hist, [a |-> "t", n |-> n, e |-> TRUE, v |-> 0])
        \/ \E n \in Node :    \* node n, whose connection had failed, comes back, is reconnected and
                               \* fails again while the call still waits for others (C07): no step of the call
             /\ Family = "C07" /\ sc.fk = "crash"
             /\ \E i \in DOMAIN hist : hist[i].a = "t" /\ hist[i].n = n
             /\ \A i \in DOMAIN hist : hist[i].a # "flap"
             /\ UNCHANGED vars /\ hist' = Append(hist, [a |-> "flap", n |-> n, e |-> FALSE, v |-> 0])
        \/ \E c \in (IF Family = "C02" THEN {"canceled", "deadline"} ELSE {"canceled"}) :
             CtxEnd(c) /\ hist' = Append(hist, [a |-> c, n |-> 0, e |-> FALSE, v |-> 0])
  \/ /\ pc = "init" /\ Family \in {"C02", "C06"}
     /\ CtxEnd("canceled") /\ hist' = Append(hist, [a |-> "precancel", n |-> 0, e |-> FALSE, v |-> 0])

GNext == (Internal /\ UNCHANGED hist) \/ EnvStep
GSpec == GInit /\ [][GNext]_gvars

\* a behaviour is complete when the call has returned, or when it is stuck for
\* good (only possible with an enabled deviation); both are written out
Complete == pc = "returned" \/ (pc = "waiting" /\ Quiet /\ ~ENABLED EnvStep)
Emit == Complete =>
          CSVWrite("%1$s", <<ToJson([sc |-> [sc EXCEPT !.vals = 0], h |-> hist,
                                     out |-> out.tag, stuck |-> pc # "returned"])>>, IOEnv.GEN_OUT)
=============================================================================
