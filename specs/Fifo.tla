-------------------------------- MODULE Fifo --------------------------------
(***************************************************************************)
(* Per-connection ordering guarantees of gorums (C03, C04), stated over    *)
(* API-level events:                                                       *)
(*   callers   StubCall(t), StubRet(t)   an invocation begins / returns    *)
(*             EnqBegin(n, t)            call t is handed to node n's queue*)
(*   servers   HStart(n, x, t)           node n starts t's handler on      *)
(*                                       connection x                      *)
(*             HRelease(x, t), HReturn(x, t)  the handler releases/returns *)
(*                                                                         *)
(* Before(c1, c2) == c1's invocation had returned when c2 was invoked.     *)
(* It is taken from the callers' events, not from the queue order, so an   *)
(* implementation that enqueues asynchronously violates FifoPerConn even   *)
(* if its servers follow the queue.                                        *)
(***************************************************************************)
EXTENDS Integers, Sequences, FiniteSets, TLC

VARIABLES
  returned,   \* calls whose invocation has returned
  before,     \* before[t]: the calls that had returned when t was invoked
  targets,    \* targets[t]: nodes t was handed to
  started,    \* started[x]: calls whose handler started on connection x, in order
  pairs,      \* <<node, call>> pairs for which a handler has started
  unrel,      \* unrel[x]: the call whose handler holds connection x's ordering lock, or 0
  connNode,   \* connection -> node
  cancelled   \* calls whose context was ended by the environment

fvars == <<returned, before, targets, started, pairs, unrel, connNode, cancelled>>

FInit ==
  /\ returned = {} /\ before = <<>> /\ targets = <<>> /\ started = <<>> /\ pairs = {}
  /\ unrel = <<>> /\ connNode = <<>> /\ cancelled = {}

Range(s) == {s[i] : i \in DOMAIN s}
Get(f, k, d) == IF k \in DOMAIN f THEN f[k] ELSE d

StubCall(t) ==
  /\ t \notin DOMAIN before
  /\ before' = (t :> returned) @@ before
  /\ UNCHANGED <<returned, targets, started, pairs, unrel, connNode, cancelled>>

StubRet(t) ==
  /\ returned' = returned \cup {t}
  /\ UNCHANGED <<before, targets, started, pairs, unrel, connNode, cancelled>>

EnqBegin(n, t) ==
  /\ targets' = (t :> (Get(targets, t, {}) \cup {n})) @@ targets
  /\ UNCHANGED <<returned, before, started, pairs, unrel, connNode, cancelled>>

CtxEnded(t) ==
  /\ cancelled' = cancelled \cup {t}
  /\ UNCHANGED <<returned, before, targets, started, pairs, unrel, connNode>>

\* C03 and C04 in one precondition: a handler may start on connection x only
\*  - for a call that was handed to this node, and never twice (NoDoubleStart)
\*  - when no earlier handler of x is still unreleased (OneUnreleased)
\*  - if no call already started on x was invoked after this one returned (FifoPerConn)
HStart(n, x, t) ==
  /\ <<n, t>> \notin pairs
  /\ t \in DOMAIN targets /\ n \in targets[t]
  /\ Get(connNode, x, n) = n
  /\ Get(unrel, x, 0) = 0
  /\ \A i \in DOMAIN Get(started, x, <<>>) : t \notin Get(before, started[x][i], {})
  /\ pairs' = pairs \cup {<<n, t>>}
  /\ started' = (x :> Append(Get(started, x, <<>>), t)) @@ started
  /\ unrel' = (x :> t) @@ unrel
  /\ connNode' = (x :> n) @@ connNode
  /\ UNCHANGED <<returned, before, targets, cancelled>>

\* Release is idempotent and may come from any goroutine; returning releases implicitly
HRelease(x, t) ==
  /\ unrel' = IF Get(unrel, x, 0) = t THEN (x :> 0) @@ unrel ELSE unrel
  /\ UNCHANGED <<returned, before, targets, started, pairs, connNode, cancelled>>

\* a program without faults has ended: every invocation returned, every
\* targeted server handled every call, nothing is held
AllHandled ==
  /\ DOMAIN before \subseteq returned
  /\ \A t \in DOMAIN before \ cancelled : \A n \in Get(targets, t, {}) : <<n, t>> \in pairs
  /\ \A x \in DOMAIN unrel : unrel[x] = 0

\* invariants of the monitor's own state (also checked on every trace state)
OneStartPerPair == \A x \in DOMAIN started : \A i, j \in DOMAIN started[x] : i # j => started[x][i] # started[x][j]
FifoPerConn ==
  \A x \in DOMAIN started : \A i, j \in DOMAIN started[x] :
     i < j => started[x][i] \notin Get(before, started[x][i], {}) /\ started[x][j] \notin Get(before, started[x][i], {})
=============================================================================
