----------------------------- MODULE ChannelMC -----------------------------
EXTENDS Channel
CONSTANTS K1, K2, K3
KindOf == [r \in Reqs |-> IF r = 1 THEN K1 ELSE IF r = 2 THEN K2 ELSE K3]
=============================================================================
