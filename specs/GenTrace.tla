------------------------------- MODULE GenTrace -------------------------------
(* Validates what the plugin built from the working tree did with every       *)
(* enumerated service definition (C16) and what the generated code binds      *)
(* each accepted method to (C17).                                             *)
EXTENDS Gen, Json, IOUtils

Trace == ndJsonDeserialize(IOEnv.TRACE)
VARIABLES l, bad
Ev == Trace[l]
TInit == l = 1 /\ bad = 0

SeqToSet(s) == {s[i] : i \in DOMAIN s}
M(j) == [ct |-> SeqToSet(j.ct), pn |-> j.pn, cu |-> j.cu, cs |-> j.cs, ss |-> j.ss, io |-> j.io]
S(j) == [methods |-> [i \in DOMAIN j.methods |-> M(j.methods[i])], reserved |-> j.reserved, nsvc |-> j.nsvc]

OK ==
  CASE Ev.ev = "Svc"  -> Verdict(S(Ev.svc)) = Ev.svc.verdict /\ Acceptable(Verdict(S(Ev.svc)), Ev.o)
    [] Ev.ev = "Bind" -> Ev.b = Binding(M(Ev.m), Ev.full, Ev.goname)
    [] Ev.ev = "File" -> Ev.equal                       \* a committed generated file equals the regenerated one
    [] OTHER -> FALSE

TNext ==
  /\ l <= Len(Trace) /\ l' = l + 1
  /\ IF OK THEN UNCHANGED bad ELSE PrintT(<<"BAD", l, Ev.c, Ev.ev>>) /\ bad' = bad + 1
TSpec == TInit /\ [][TNext]_<<l, bad>>
Accepted == PrintT(<<"DONE", TLCGet("stats").diameter>>)
=============================================================================
