------------------------------ MODULE CallsMC ------------------------------
(* Exhaustive instance of Calls: every scenario up to MaxN nodes.           *)
EXTENDS Calls

CONSTANTS MaxN

PNAll(n)  == [1..n -> {"same", "own", "skip"}]
PNSame(n) == {[i \in 1..n |-> "same"]}
Base(kind, n, pn) == [kind |-> kind, n |-> n, pn |-> pn, qf |-> "thr", k |-> 1, lv |-> "none",
                      nsw |-> FALSE, custom |-> FALSE, vals |-> {1}]

Scenarios ==
  {Base("rpc", 1, [i \in 1..1 |-> "same"])}
  \cup {[Base("ucast", 1, [i \in 1..1 |-> "same"]) EXCEPT !.nsw = b] : b \in BOOLEAN}
  \cup UNION {{[Base("mcast", n, pn) EXCEPT !.nsw = b] : pn \in PNAll(n), b \in BOOLEAN} : n \in 1..MaxN}
  \cup UNION {UNION {{[Base(kd, n, pn) EXCEPT !.k = k] : pn \in PNAll(n), k \in 1..n+1}
                     \cup {[Base(kd, n, pn) EXCEPT !.qf = "eq", !.vals = {1, 2}] : pn \in PNSame(n)}
                     : n \in 1..MaxN} : kd \in {"qc", "async"}}
  \cup UNION {UNION {{[Base(kd, n, pn) EXCEPT !.k = k, !.lv = lv, !.custom = cu,
                                              !.vals = IF lv = "nonmono" THEN {1, 2} ELSE {1}]
                       : pn \in (IF kd = "corr" THEN PNAll(n) ELSE PNSame(n)), k \in 1..n+1,
                         lv \in {"count", "nonmono", "jump"}, cu \in BOOLEAN}
                     : n \in 1..MaxN} : kd \in {"corr", "corrstream"}}

Init == \E s \in Scenarios : InitWith(s)
Next == Internal \/ Env(sc.vals)
Spec == Init /\ [][Next]_vars

\* reachability witnesses (each must be violated: the antecedents are not vacuous)
W_Ok         == ~(out.tag = "ok")
W_Incomplete == ~(out.tag = "incomplete")
W_Ctx        == ~(out.tag = "ctx" /\ TwoWay)
W_CorrLevel  == ~(IsCorr /\ ~corr.done /\ corr.level > 0)
=============================================================================
