------------------------------- MODULE Config -------------------------------
(***************************************************************************)
(* Configuration algebra and node pool of a manager (C14).                 *)
(*                                                                         *)
(* Abstract state: pool (node id -> canonical address: the manager's one   *)
(* node object per id) and the sequence of configurations built so far,    *)
(* each a SET of ids.  Every public constructor is an operation whose      *)
(* allowed outcomes are given by Outcomes(op): the mathematical result     *)
(* (union, difference, named nodes) or an error.  Where the statement of   *)
(* the property leaves a choice (a repeated address or id: de-duplicate or *)
(* fail) both outcomes are allowed.                                        *)
(***************************************************************************)
EXTENDS Integers, Sequences, FiniteSets, TLC

\* address spellings; a2 is another spelling of a; c1 and c2 are distinct
\* addresses whose generated (FNV-1a) ids collide
Addrs == {"a", "a2", "b", "c1", "c2"}
Canon == [a |-> "a", a2 |-> "a", b |-> "b", c1 |-> "c1", c2 |-> "c2"]
H     == [a |-> 103, b |-> 102, c1 |-> 101, c2 |-> 101]     \* generated id of a canonical address
                                                             \* (order-preserving abstraction of the real FNV-1a values)
MapIds == {1, 2}

VARIABLES pool, cfgs
cvars == <<pool, cfgs>>

Range(s) == {s[i] : i \in DOMAIN s}
Err(p)    == [ok |-> FALSE, set |-> {}, pool |-> p]
Ok(S, p)  == [ok |-> TRUE, set |-> S, pool |-> p]

\* pairs <<canonical address, id>> that can be added to pool p without
\* putting two addresses under one id
Compatible(p, P) ==
  /\ \A x, y \in P : x[2] = y[2] => x = y
  /\ \A x \in P : x[2] \in DOMAIN p => p[x[2]] = x[1]
Add(p, P) == [i \in DOMAIN p \cup {x[2] : x \in P} |->
                IF i \in DOMAIN p THEN p[i] ELSE (CHOOSE x \in P : x[2] = i)[1]]

\* outcomes of creating / looking up the nodes named by the pairs P
\* (dup: the request named one node more than once)
NodeOutcomes(P, dup, extra) ==
  IF ~Compatible(pool, P)
    THEN \* two distinct addresses would share an id: must fail; nodes created
         \* before the conflict was noticed may stay in the pool
         {Err(Add(pool, S)) : S \in {T \in SUBSET P : Compatible(pool, T)}}
    ELSE {Ok({x[2] : x \in P} \cup extra, Add(pool, P))}
         \cup (IF dup THEN {Err(Add(pool, S)) : S \in SUBSET P} ELSE {})

ListPairs(L) == {<<Canon[L[i]], H[Canon[L[i]]]>> : i \in DOMAIN L}
MapPairs(M)  == {<<Canon[p[1]], p[2]>> : p \in M}

Outcomes(op) ==
  CASE op.op = "list" ->
         IF op.L = <<>> THEN {Err(pool)}
         ELSE NodeOutcomes(ListPairs(op.L), Len(op.L) > Cardinality(ListPairs(op.L)), {})
    [] op.op = "map" ->
         IF op.M = {} THEN {Err(pool)}
         ELSE NodeOutcomes(MapPairs(op.M), Cardinality(op.M) > Cardinality(MapPairs(op.M)), {})
    [] op.op = "ids" ->
         IF op.I = <<>> \/ ~(Range(op.I) \subseteq DOMAIN pool) THEN {Err(pool)}
         ELSE {Ok(Range(op.I), pool)} \cup (IF Len(op.I) > Cardinality(Range(op.I)) THEN {Err(pool)} ELSE {})
    [] op.op = "and" -> {Ok(cfgs[op.c] \cup cfgs[op.d], pool)}
    [] op.op = "except" ->
         LET S == cfgs[op.c] \ cfgs[op.d] IN IF S = {} THEN {Err(pool)} ELSE {Ok(S, pool)}
    [] op.op = "without" ->
         LET S == cfgs[op.c] \ op.I IN IF S = {} THEN {Err(pool)} ELSE {Ok(S, pool)}
    [] op.op = "newnodes" ->
         IF op.L = <<>> THEN {Err(pool)}
         ELSE NodeOutcomes(ListPairs(op.L), Len(op.L) > Cardinality(ListPairs(op.L)), cfgs[op.c])

Valid(op) ==
  /\ op.op \in {"and", "except"} => op.c \in DOMAIN cfgs /\ op.d \in DOMAIN cfgs
  /\ op.op \in {"without", "newnodes"} => op.c \in DOMAIN cfgs

Apply(o) ==
  /\ pool' = o.pool
  /\ cfgs' = IF o.ok THEN Append(cfgs, o.set) ELSE cfgs

CInit == pool = <<>> /\ cfgs = <<>>

\* invariants (C14)
NonEmpty       == \A k \in DOMAIN cfgs : cfgs[k] # {}
SubsetOfPool   == \A k \in DOMAIN cfgs : cfgs[k] \subseteq DOMAIN pool
OneAddrPerId   == \A i \in DOMAIN pool : pool[i] \in {Canon[x] : x \in Addrs}
GeneratedIdsCarryTheirAddress == \A i \in DOMAIN pool : i \notin MapIds => H[pool[i]] = i
\* action properties
OperandsUnchanged == [][\A k \in DOMAIN cfgs : k \in DOMAIN cfgs' /\ cfgs'[k] = cfgs[k]]_cvars
PoolOnlyGrows     == [][\A i \in DOMAIN pool : i \in DOMAIN pool' /\ pool'[i] = pool[i]]_cvars
=============================================================================
