---------------------------- MODULE RoutingTrace ----------------------------
(* Validates recorded executions against Routing.tla.  Sections start with  *)
(* a Prog line.  The router count logged inside the critical section must   *)
(* equal the specification's; at ProgEnd (all handlers and invocations have  *)
(* returned) the tables must be empty and no per-call goroutine may be left. *)
EXTENDS Routing, Json, IOUtils

Trace == ndJsonDeserialize(IOEnv.TRACE)
VARIABLES l, bad, hstamp
tvars == <<rvars, l, bad, hstamp>>
Ev == Trace[l]
Is(e) == l <= Len(Trace) /\ Trace[l].ev = e
Step == l' = l + 1 /\ UNCHANGED bad
K == <<Ev.node, Ev.msg>>
CountOnP(n) == Cardinality({k \in routers' : k[1] = n})

TInit == RInit /\ l = 1 /\ bad = 0 /\ hstamp = <<>>

TProg == /\ Is("Prog") /\ Step
         /\ routers' = {} /\ stream' = {} /\ delivered' = <<>> /\ taken' = <<>> /\ ended' = {} /\ everReg' = {}
         /\ errTaken' = {}
         /\ hstamp' = <<>>

TNormal ==
  \/ Is("RegisterRouter") /\ Step /\ Register(K, Ev.streaming) /\ Ev.routers = CountOnP(Ev.node) /\ UNCHANGED hstamp
  \/ Is("Route") /\ Step /\ UNCHANGED hstamp
       /\ IF Ev.found THEN Deliver(K, Ev.streaming) ELSE Drop(K)
  \/ Is("DeleteRouter") /\ Step /\ Delete(K) /\ Ev.routers = CountOnP(Ev.node) /\ UNCHANGED hstamp
  \/ Is("CallRecv") /\ Step /\ Recv(K, Ev.err) /\ UNCHANGED hstamp
  \/ Is("CallEnd") /\ Step /\ End(Ev.msg) /\ UNCHANGED hstamp
  \* the stamps of what the node's handler produced for a call (tok), by <<node, tok>>
  \/ Is("HStart") /\ Step /\ UNCHANGED rvars /\ hstamp' = (<<Ev.node, Ev.tok>> :> Ev.serial) @@ hstamp
  \* C05: every reply shown to a quorum function is filed under the node that
  \* produced it and was produced for this call
  \/ Is("QF") /\ Step /\ UNCHANGED <<rvars, hstamp>>
       /\ \A i \in DOMAIN Ev.set :
            LET s == Ev.set[i] IN s[2] = s[1] /\ s[3] = Ev.tok
                                  /\ <<s[1], Ev.tok>> \in DOMAIN hstamp /\ s[4] = hstamp[<<s[1], Ev.tok>>]
  \* what an RPC / a completed call returned carries the call's own token
  \/ Is("StubRet") /\ Step /\ UNCHANGED <<rvars, hstamp>> /\ ~Ev.panicked
       /\ ((~Ev.resnil) => (Ev.restok = Ev.tok))
  \/ Is("Routers") /\ Step /\ UNCHANGED <<rvars, hstamp>> /\ Ev.count = CountOn(Ev.node)
  \* C10: after the environment's crashes and restarts, with every server up
  \* again, a quorum call that needs all nodes succeeded
  \/ Is("Probe") /\ Step /\ UNCHANGED <<rvars, hstamp>> /\ Ev.ok
  \/ Is("ProgEnd") /\ Step /\ UNCHANGED <<rvars, hstamp>>
       /\ Ev.clean /\ NoResidue /\ Ev.callgoroutines = 0

NextProg(i) ==
  LET S == {j \in i+1..Len(Trace) : Trace[j].ev = "Prog"}
  IN IF S = {} THEN Len(Trace) + 1 ELSE CHOOSE j \in S : \A k \in S : j <= k
TBad == /\ l <= Len(Trace) /\ ~Is("Prog") /\ ~ENABLED TNormal
        /\ PrintT(<<"BAD", l, Ev.t, Ev.ev>>)
        /\ l' = NextProg(l) /\ bad' = bad + 1 /\ UNCHANGED <<rvars, hstamp>>

TNext == TProg \/ TNormal \/ TBad
TSpec == TInit /\ [][TNext]_tvars
Accepted == PrintT(<<"DONE", TLCGet("stats").diameter>>)
TraceInv == AtMostOneResponse /\ TakenWasDelivered
=============================================================================
