------------------------------- MODULE FifoGen -------------------------------
(* Enumerates the programs (sequences of calls with scripted handlers) that  *)
(* the driver replays for C03 and C04 and writes them to GEN_OUT.            *)
EXTENDS Integers, Sequences, FiniteSets, TLC, Json, CSV, IOUtils

CONSTANTS Family, Len3

Methods == {"Rpc", "QC", "QCPerNode", "QCCustom", "QCCombo", "Async", "AsyncPerNode", "AsyncCustom",
            "Corr", "CorrPerNode", "CorrCustom", "CorrStream", "CorrStreamCustom", "Mcast", "McastPerNode", "Ucast"}
OneWay  == {"Mcast", "McastPerNode", "Ucast"}

D(m, nsw, beh, mgr) == [m |-> m, nsw |-> nsw, beh |-> beh, mgr |-> mgr, k |-> 2, cancel |-> ""]
Variants(ms, behs, mgrs) ==
  {D(m, nsw, beh, mgr) : m \in ms, nsw \in BOOLEAN, beh \in behs, mgr \in mgrs} \ {d \in [m : ms, nsw : {TRUE}, beh : behs, mgr : mgrs, k : {2}, cancel : {""}] : d.m \notin OneWay}

\* C03: every ordered pair of call variants; thresholds below the configuration
\* size, one node slow or holding, so stragglers of the first call are still
\* queued when the second is issued
C03Calls == Variants(Methods, {"FFF", "FFS", "FFH", "HFF"}, {0})
C03 == {[calls |-> <<a, b>>, rel |-> r] : a \in C03Calls, b \in C03Calls, r \in {"fifo", "lifo"}}
       \cup (IF Len3 THEN {[calls |-> <<a, b, c>>, rel |-> "fifo"] :
                              a \in Variants({"QC", "Async", "Mcast", "Rpc"}, {"FFH", "HFF"}, {0}),
                              b \in Variants({"CorrStream", "Ucast", "QCCombo", "Mcast"}, {"FFS", "FFH"}, {0}),
                              c \in Variants({"Rpc", "QC", "Mcast", "Corr"}, {"FFF"}, {0})}
             ELSE {})

\* C04: one handler at a time per connection; every release style; a second
\* client connection that must not be delayed
Triple(b) == <<b, b, b>>
C04First  == Variants({"Rpc", "QC", "CorrStream", "Mcast", "Ucast"}, {"FFF", "LLL", "SSS", "HHH", "RRR", "GGG", "EEE", "NNN"}, {0})
C04Second == Variants({"Rpc", "QC", "CorrStream", "Mcast", "Ucast"}, {"FFF", "LLL"}, {0, 1})
\* a handler that released early releases AGAIN (by returning, explicitly, from helper
\* goroutines) after the next handler has started and while that one still holds the
\* connection: the third request must not start ("staged": the stragglers are released
\* one call at a time with an observation window in between)
C04Staged == {[calls |-> <<a, b, c>>, rel |-> "staged"] :
                 a \in Variants({"Rpc", "QC", "CorrStream", "Mcast"}, {"SSS", "RRR", "GGG"}, {0}),
                 b \in Variants({"Rpc", "QC", "Mcast"}, {"HHH"}, {0}),
                 c \in Variants({"Rpc", "Ucast"}, {"FFF"}, {0})}
\* a streaming handler that holds the connection while it sends several items back to back
\* (the server's sender goroutine is busy): sending is not releasing
C04Items == {[calls |-> <<a, b>>, rel |-> "fifo"] :
                a \in Variants({"CorrStream", "CorrStreamCustom"}, {"III", "IFF", "FIF"}, {0}), b \in C04Second}
C04 == {[calls |-> <<a, b>>, rel |-> "fifo"] : a \in C04First, b \in C04Second}
       \cup C04Staged \cup C04Items
       \cup (IF Len3 THEN {[calls |-> <<a, b, c>>, rel |-> "lifo"] :
                              a \in Variants({"QC", "Ucast"}, {"HHH", "NNN", "GGG"}, {0}),
                              b \in Variants({"Rpc", "Mcast", "CorrStream"}, {"HHH", "RRR", "FFF"}, {0, 1}),
                              c \in Variants({"Rpc", "QC"}, {"FFF"}, {0, 1})}
             ELSE {})

\* C05 / C18: every call kind x every way a call can end: all replies, quorum
\* before all replies (a late reply after the call returned), exhaustion by
\* handler errors, cancellation while handlers are pending, alone and followed
\* by a second call on the same nodes
DC(m, nsw, beh, cancel) == [m |-> m, nsw |-> nsw, beh |-> beh, mgr |-> 0, k |-> 2, cancel |-> cancel]
C18Calls == {DC(m, nsw, beh, cn) : m \in Methods, nsw \in BOOLEAN, beh \in {"FFF", "FFS", "EEF", "EEE", "SSS", "FSS"},
                                    cn \in {"", "issued"}}
            \ {d \in [m : Methods, nsw : {TRUE}, beh : {"FFF", "FFS", "EEF", "EEE", "SSS", "FSS"}, mgr : {0}, k : {2},
                        cancel : {"", "issued"}] : d.m \notin OneWay}
C18 == {[calls |-> <<a>>, rel |-> "fifo"] : a \in C18Calls}
       \cup {[calls |-> <<a, DC(m2, FALSE, "FFF", "")>>, rel |-> r] : a \in C18Calls, m2 \in {"Rpc", "QC", "CorrStream"},
                                                                       r \in {"fifo", "lifo"}}
       \cup (IF Len3 THEN {[calls |-> <<a, b>>, rel |-> "lifo"] : a \in C18Calls, b \in C18Calls} ELSE {})

VARIABLE prog
Init == prog \in (CASE Family = "C03" -> C03 [] Family = "C04" -> C04 [] OTHER -> C18)
Next == UNCHANGED prog
Spec == Init /\ [][Next]_prog
Emit == CSVWrite("%1$s", <<ToJson(prog)>>, IOEnv.GEN_OUT)
=============================================================================
