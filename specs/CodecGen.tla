------------------------------ MODULE CodecGen ------------------------------
(* Enumerates the complete lattice of abstract frames to GEN_OUT and checks *)
(* totality / no-panic / encoder frames decode at the abstract level.       *)
EXTENDS Codec, Json, CSV, IOUtils
VARIABLE f
Init == f \in Frames
Next == UNCHANGED f
Spec == Init /\ [][Next]_f
ASSUME Total
ASSUME Devs = {} => NoPanic
ASSUME EncodedDecodes
Emit == CSVWrite("%1$s", <<ToJson(f)>>, IOEnv.GEN_OUT)
=============================================================================
