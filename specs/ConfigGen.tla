------------------------------ MODULE ConfigGen ------------------------------
(* Exhaustive exploration of Config up to Depth operations; checks the       *)
(* invariants at design level and writes every operation sequence to GEN_OUT *)
(* (one JSON line per reached state; the checker removes repeated lines).    *)
EXTENDS Config, Json, CSV, IOUtils

CONSTANTS Depth, MaxList

VARIABLE hist
gvars == <<pool, cfgs, hist>>

RECURSIVE SeqsUpTo(_, _)
SeqsUpTo(S, n) == IF n = 0 THEN {<<>>}
                  ELSE LET P == SeqsUpTo(S, n - 1) IN P \cup {Append(s, x) : s \in {q \in P : Len(q) = n - 1}, x \in S}

IdUniverse == {1, 2, 101, 103}
MapAddrs   == {"a", "a2", "b"}
MapSets    == {M \in SUBSET (MapAddrs \X MapIds) : Cardinality(M) \in 1..2 /\ \A p, q \in M : p[1] = q[1] => p = q}

Ops ==
  {[op |-> "list", L |-> L] : L \in SeqsUpTo(Addrs, MaxList)}
  \cup {[op |-> "map", M |-> M] : M \in MapSets \cup {{}}}
  \cup {[op |-> "ids", I |-> I] : I \in SeqsUpTo(IdUniverse, 2)}
  \cup {[op |-> o, c |-> c, d |-> d] : o \in {"and", "except"}, c \in DOMAIN cfgs, d \in DOMAIN cfgs}
  \cup {[op |-> "without", c |-> c, I |-> I] : c \in DOMAIN cfgs, I \in {{1}, {103}, {2, 102}, {101}}}
  \cup {[op |-> "newnodes", c |-> c, L |-> L] : c \in DOMAIN cfgs, L \in SeqsUpTo({"a", "b", "c2"}, 1) \ {<<>>}}

\* JSON form of an operation (sets become sequences)
RECURSIVE SetToSeq(_)
SetToSeq(S) == IF S = {} THEN <<>> ELSE LET x == CHOOSE y \in S : TRUE IN <<x>> \o SetToSeq(S \ {x})
J(op) ==
  CASE op.op = "list"     -> [op |-> "list", L |-> op.L, M |-> <<>>, I |-> <<>>, c |-> 0, d |-> 0]
    [] op.op = "map"      -> [op |-> "map", L |-> <<>>, M |-> SetToSeq(op.M), I |-> <<>>, c |-> 0, d |-> 0]
    [] op.op = "ids"      -> [op |-> "ids", L |-> <<>>, M |-> <<>>, I |-> op.I, c |-> 0, d |-> 0]
    [] op.op = "without"  -> [op |-> "without", L |-> <<>>, M |-> <<>>, I |-> SetToSeq(op.I), c |-> op.c, d |-> 0]
    [] op.op = "newnodes" -> [op |-> "newnodes", L |-> op.L, M |-> <<>>, I |-> <<>>, c |-> op.c, d |-> 0]
    [] OTHER              -> [op |-> op.op, L |-> <<>>, M |-> <<>>, I |-> <<>>, c |-> op.c, d |-> op.d]

GInit == CInit /\ hist = <<>>
GNext == /\ Len(hist) < Depth
         /\ \E op \in Ops : \E o \in Outcomes(op) : Apply(o) /\ hist' = Append(hist, J(op))
GSpec == GInit /\ [][GNext]_gvars

Emit == (hist # <<>>) => CSVWrite("%1$s", <<ToJson(hist)>>, IOEnv.GEN_OUT)
=============================================================================
