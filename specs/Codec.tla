------------------------------- MODULE Codec -------------------------------
(***************************************************************************)
(* The gorums wire codec (C13): a frame is                                 *)
(*    varint(len(metadata)) metadata varint(len(payload)) payload          *)
(* where the metadata names the method; the decoder looks the method up in *)
(* the protobuf registry and decodes the payload as the method's request   *)
(* or response type.  This module transcribes the decoder's case analysis  *)
(* (encoding.go gorumsUnmarshal) over ABSTRACT frames: each field of a     *)
(* frame is the class of bytes found in that position.  Decode maps every  *)
(* abstract frame to the set of allowed outcome classes; "panic" is in     *)
(* none of them.                                                           *)
(***************************************************************************)
EXTENDS Integers, FiniteSets, TLC

CONSTANT Devs

\* "huge": a length prefix >= 2^63 - 10 (negative or wrapping when converted to a signed
\* integer or added to an offset); "overlong": a varint of more than 10 bytes
MdLenClasses   == {"absent", "truncvarint", "exact", "longer", "shorter", "huge", "overlong"}
MdClasses      == {"valid", "invalidwire"}
MethodClasses  == {"empty", "unknown", "message", "service", "enum", "enumvalue", "field", "method"}
DirClasses     == {"request", "response", "invalid"}
PLenClasses    == {"absent", "truncvarint", "exact", "longer", "huge", "overlong"}
PayloadClasses == {"valid", "othertype", "invalidwire", "empty"}

Frames == [mdlen : MdLenClasses, md : MdClasses, method : MethodClasses, dir : DirClasses,
           plen : PLenClasses, payload : PayloadClasses]

\* the set of allowed outcomes of decoding frame f
Decode(f) ==
  CASE f.mdlen \in {"absent", "truncvarint", "longer", "huge", "overlong"} -> {"err"}   \* no metadata: no method: lookup fails
    [] f.mdlen = "shorter" -> {"err", "msg"}                        \* a prefix of the metadata: anything but a crash
    [] f.md = "invalidwire" -> {"err"}
    [] f.method \in {"empty", "unknown"} -> {"err"}
    [] f.method \in {"message", "service", "enum", "enumvalue", "field"} ->
         \* a registered name that is not a method.  Deviation MethodFieldNamesNonMethod:
         \* the unchecked type assertion panics.
         IF "MethodFieldNamesNonMethod" \in Devs THEN {"panic"} ELSE {"err"}
    [] f.dir = "invalid" -> {"err"}
    [] f.plen \in {"absent", "truncvarint", "longer", "huge", "overlong"} -> {"msg"}    \* no payload bytes: the empty message
    [] f.payload \in {"valid", "empty"} -> {"msg"}
    [] f.payload = "invalidwire" -> {"err"}
    [] f.payload = "othertype" -> {"err", "msg"}                    \* well-formed bytes of another type

\* C13: the decoder is total and never crashes
Total    == \A f \in Frames : Decode(f) # {} /\ Decode(f) \subseteq {"err", "msg", "panic"}
NoPanic  == \A f \in Frames : "panic" \notin Decode(f)
\* a frame produced by the encoder (every field exact and valid) decodes to a message
EncodedDecodes ==
  \A f \in Frames : (f.mdlen = "exact" /\ f.md = "valid" /\ f.method = "method" /\ f.dir # "invalid"
                     /\ f.plen = "exact" /\ f.payload \in {"valid", "empty"}) => Decode(f) = {"msg"}
=============================================================================
