---------------------------- MODULE ChannelTrace ----------------------------
(***************************************************************************)
(* Validates the recorded events of ONE node's transport (the hooks in     *)
(* channel.go, the call files and server.go, the puppet's handler events   *)
(* and the driver's environment events) against Channel.tla, action by     *)
(* action.  One trace file = one scenario projected to one node; its first *)
(* line is a header with the requests, their kinds and the constants.      *)
(*                                                                         *)
(* Every event is bound to the specification action whose linearization    *)
(* point it marks; steps of the code that have no event of their own       *)
(* (lock-free reads of the two flags, a goroutine starting to wait for the *)
(* stream lock, a sender finishing a two-way send, the instants at which   *)
(* a stopping server actually dies or a restarted one becomes reachable)   *)
(* are specification actions taken SILENTLY between events: TLC searches   *)
(* for a placement.  The trace is accepted iff some behaviour of           *)
(* Channel.tla consumes every line: the invariant NotDone is then          *)
(* violated (that is the success signal); if the state space is exhausted  *)
(* first, the highest line reached (printed as STEP) is the rejected one.  *)
(***************************************************************************)
EXTENDS Channel, Json, IOUtils, TLC

Trace == ndJsonDeserialize(IOEnv.TRACE)
Hdr == Trace[1]

\* constants of Channel.tla, taken from the header
TReqs     == {Hdr.reqs[i] : i \in DOMAIN Hdr.reqs}
TKind     == [r \in TReqs |-> Hdr.kinds[CHOOSE i \in DOMAIN Hdr.reqs : Hdr.reqs[i] = r]]
TSendBuf  == Hdr.sendbuf
TMaxEpoch == Hdr.maxepoch
TChanCap  == Hdr.chancap
TCancel   == TReqs
Idx(r)    == CHOOSE i \in DOMAIN Hdr.reqs : Hdr.reqs[i] = r
TCapOf(r) == Hdr.caps[Idx(r)]
TMulti(r) == Hdr.multi[Idx(r)]

VARIABLES
  l,          \* next trace line
  handed,     \* requests whose hand-off to the sender has been accounted for
  sentOn,     \* epoch on which a request was written
  stopping,   \* the server is being stopped (between EnvStop and EnvStopped)
  srvUp,      \* the server process is listening (the transport may not be ready yet)
  unrep,      \* requests whose call has taken a response from its channel without having logged it yet
  closing,    \* the node's context is being cancelled (between NodeCancelBegin and NodeCancel)
  lateErr,    \* a send-waiting one-way request whose send error is routed after its confirmation
  hfail,      \* requests whose handler answered with an error status (the response is a reply that carries an error)
  pendF,      \* streaming calls over several nodes: responses of OTHER nodes that have been announced (their Route
              \* event) but have not reached the call's shared reply channel yet
  errSeen     \* such calls: whether an error of this node ("own") / of another node ("for") has been counted
tvars == <<vars, l, handed, sentOn, stopping, srvUp, unrep, closing, lateErr, hfail, pendF, errSeen>>
TUnch == UNCHANGED <<handed, sentOn, stopping, srvUp, unrep, closing, lateErr, hfail, pendF, errSeen>>

Ev == Trace[l]
Is(e) == l <= Len(Trace) /\ Trace[l].ev = e
Step == l' = l + 1
M == Ev.msg
Who(w) == (w = 1 /\ Ev.who > 0) \/ (w = -1 /\ Ev.who < 0)

TInit == Init /\ l = 2 /\ handed = {} /\ sentOn = [r \in TReqs |-> 0] /\ stopping = FALSE /\ srvUp = TRUE
         /\ unrep = {} /\ closing = FALSE /\ lateErr = 0 /\ hfail = {}
         /\ pendF = [r \in TReqs |-> [k \in {"fok", "ferr", "fown"} |-> 0]] /\ errSeen = [r \in TReqs |-> {}]

Stutter == UNCHANGED vars

(***************************************************************************)
(* Callers                                                                 *)
(***************************************************************************)
\* RegisterRouter is logged inside the router mutex
TRegisterRouter ==
  /\ Is("RegisterRouter") /\ Step /\ TUnch
  /\ Issue(M) /\ HasRouter(M) /\ Streaming(M) = Ev.streaming
  /\ Ev.routers = Cardinality(routers')

\* a request without router is issued when the caller reaches the hand-off
THandOffWait ==
  /\ Is("HandOffWait") /\ Step /\ TUnch
  /\ IF cpc[M] = "idle" THEN Issue(M) /\ ~HasRouter(M) ELSE Stutter

\* The hand-off is a channel operation: the caller's HandOff and the sender's
\* Dequeue are logged by two goroutines in either order.  The first of them
\* performs the hand-off; the second finds it done.
DoHandOff(m) == IF SendBuf = 0 THEN HandOffDirect(m) ELSE HandOffQueue(m)
THandOff ==
  /\ Is("HandOff") /\ Step /\ UNCHANGED <<sentOn, stopping, srvUp, unrep, closing, lateErr, hfail, pendF, errSeen>>
  /\ IF M \in handed THEN Stutter /\ UNCHANGED handed
     ELSE DoHandOff(M) /\ handed' = handed \cup {M}

TDequeue ==
  /\ Is("Dequeue") /\ Step /\ UNCHANGED <<sentOn, stopping, srvUp, unrep, closing, lateErr, hfail, pendF, errSeen>>
  /\ IF SendBuf = 0
       THEN IF M \in handed THEN Stutter /\ cur = M /\ UNCHANGED handed
            ELSE HandOffDirect(M) /\ handed' = handed \cup {M}
       ELSE IF M \in handed THEN Dequeue /\ cur' = M /\ UNCHANGED handed
            ELSE HandOffThrough(M) /\ handed' = handed \cup {M}      \* (through the empty queue)

\* the caller answers its own request: the marker events name the reason, the
\* Route event that follows is logged inside the router mutex
TOwnMarker == /\ (Is("ClosedReply") \/ Is("CtxReply")) /\ Step /\ TUnch /\ Stutter
              /\ cpc[M] = "handoff"

\* The call takes a response from its channel and logs it afterwards: the receive
\* itself is visible to others (it frees a slot of the channel) before the event
\* is in the trace.  The receive is therefore a silent step (TakeSilently) that
\* the event confirms; a call handles one response at a time.
\* (a reply whose handler failed is a reply - "ok" in Channel.tla - that carries the handler's error)
ValueOK(v) == IF Is("CallConfirm") THEN v \in {"conf", "err"}
              ELSE IF Ev.foreign THEN v = (IF Ev.err THEN "ferr" ELSE "fok")
              ELSE v \in {"ok", "err"} /\ (v = "err" \/ (v = "ok" /\ M \in hfail)) = Ev.err
TCallRecv ==
  /\ (Is("CallRecv") \/ Is("CallConfirm")) /\ Step /\ UNCHANGED <<handed, sentOn, stopping, srvUp, closing, lateErr, hfail, pendF>>
  /\ errSeen' = IF Is("CallRecv") /\ Ev.err THEN [errSeen EXCEPT ![M] = @ \cup {IF Ev.foreign THEN "for" ELSE "own"}] ELSE errSeen
  /\ IF M \in unrep
       THEN Stutter /\ ValueOK(resp[M][taken[M]]) /\ unrep' = unrep \ {M}
       ELSE Take(M) /\ ValueOK(resp[M][taken[M] + 1]) /\ UNCHANGED unrep

\* a send-waiting multicast over several nodes logs its confirmations without naming the node: this one
\* may be another node's
TCallConfirmOther == Is("CallConfirm") /\ Ev.multi /\ Step /\ TUnch /\ Stutter /\ cpc[M] \in {"wait", "done"}

\* A streaming call over several nodes: another node's channel hands a response to the call's reply channel
\* (its Route event, logged under that node's router mutex before the channel operation).  A caller's own
\* answer ("own") is dropped when the channel is full.
TFRoute ==
  /\ Is("FRoute") /\ Step /\ Stutter /\ UNCHANGED <<handed, sentOn, stopping, srvUp, unrep, closing, lateErr, hfail, errSeen>>
  /\ LET k == IF Ev.own THEN "fown" ELSE IF Ev.err THEN "ferr" ELSE "fok" IN
       pendF' = IF cpc[M] = "done" THEN pendF ELSE [pendF EXCEPT ![M][k] = @ + 1]

\* the call has ended: by a reply taken before (nothing left to do), by its
\* context, or - streaming - because its quorum function is satisfied
TCallEnd ==
  /\ Is("CallEnd") /\ Step /\ TUnch
  /\ \/ cpc[M] \in {"done", "delete"} /\ Stutter
     \/ cpc[M] = "wait" /\ Ev.out = "ctx" /\ TakeCtx(M)
     \/ cpc[M] = "wait" /\ Streaming(M) /\ Ev.out # "ctx" /\ StreamEarlyDone(M)
     \/ cpc[M] = "wait" /\ Kind[M] = "nsw" /\ Stutter
     \/ cpc[M] = "wait" /\ Ev.out # "ctx" /\ Abandon(M)        \* quorum (or exhaustion) without this node's reply

TDeleteRouter ==
  /\ Is("DeleteRouter") /\ Step /\ TUnch
  /\ IF cpc[M] = "delete" THEN DeleteRouter(M) /\ Ev.routers = Cardinality(routers')
     ELSE Stutter /\ M \notin routers        \* a deferred delete of a router that is gone already

(***************************************************************************)
(* Deliveries: Route is logged inside the router mutex by whoever delivers  *)
(***************************************************************************)
RouteOK == Ev.found = (M \in routers)
IsErr == Ev.found => Ev.err        \* (the event of a delivery that finds no router does not know the error)
TRoute ==
  /\ Is("Route") /\ Ev.why = "resp" /\ Step /\ TUnch /\ RouteOK
  /\ \/ rpc = "route" /\ rmsg = M /\ Route /\ (Ev.found => (Ev.err = (M \in hfail)))   \* the receiver
     \/ spc = "brokenreply" /\ cur = M /\ BrokenReply /\ IsErr         \* the sender: stream is down
     \/ spc = "confirm" /\ cur = M /\ Confirm                           \* the sender: confirmation / send error
        /\ (Kind[M] = "sw" \/ sndErr)
     \/ cpc[M] = "handoff" /\ closed /\ ClosedReply(M) /\ IsErr        \* the caller itself
     \/ cpc[M] = "handoff" /\ ctx[M] = "ended" /\ CtxReply(M) /\ IsErr
     \/ closed /\ (\E i \in DOMAIN sendQ : sendQ[i] = M) /\ Drain        \* whoever drains the queue of a closed node
        /\ \A i \in DOMAIN sendQ' : sendQ'[i] # M

\* "stream is down" for every pending request: the CancelPending event is
\* logged inside the router mutex, before the individual deliveries
TCancelPending ==
  /\ Is("CancelPending") /\ Step /\ TUnch
  /\ Ev.routers = Cardinality(routers)
  /\ \/ rpc = "cancelpend" /\ CancelPending
     \/ rpc = "cancelpend2" /\ CancelPending2
     \/ rpc = "exiting" /\ ReceiverExit
TRouteDown == /\ Is("Route") /\ Ev.why = "down" /\ Step /\ TUnch /\ Stutter
              /\ Len(resp[M]) > 0 /\ resp[M][Len(resp[M])] = "err"

(***************************************************************************)
(* Sender                                                                  *)
(***************************************************************************)
TSndConnect == /\ Is("SndConnect") /\ Step /\ TUnch /\ Stutter /\ spc \in {"dial", "readbroken"} /\ cur = M

\* the first stream: created by the manager at creation, or by the sender
TDial == /\ Is("Dial") /\ Step /\ TUnch
         /\ IF spc = "dial" /\ ~Ev.ok THEN Dial /\ ~established' ELSE Stutter
TFirstStream ==
  /\ Is("FirstStream") /\ Step /\ TUnch
  /\ IF spc = "dial"
       THEN Dial /\ (established' = Ev.ok)
       ELSE IF Ev.ok THEN EagerConnect ELSE Stutter /\ ~established
TReceiverStart == Is("ReceiverStart") /\ Step /\ TUnch /\ Stutter /\ established

TReconLockBusy == /\ Is("ReconLockBusy") /\ Step /\ TUnch /\ Who(1)
                  /\ SLockWait /\ spc' = "brokenchk"
TReconLocked ==
  /\ Is("ReconLocked") /\ Step /\ TUnch
  /\ IF Ev.who > 0 THEN SLockWait /\ spc' = "s_locked" ELSE RLockWait /\ rpc' = "r_locked"
TReconSeeUp ==
  /\ Is("ReconSeeUp") /\ Step /\ TUnch
  /\ IF Ev.who > 0 THEN SLocked /\ ~broken ELSE RLocked /\ ~broken
TReconNewStream ==
  /\ Is("ReconNewStream") /\ Step /\ TUnch
  /\ IF Ev.who > 0 THEN SLocked /\ broken ELSE RLocked /\ broken
  /\ Ev.ok = (epoch' = epoch + 1)
TReconGiveUp == Is("ReconGiveUp") /\ Step /\ TUnch /\ Stutter /\ broken
TReconSleep == /\ Is("ReconSleep") /\ Step /\ TUnch /\ Stutter
               /\ IF Ev.who > 0 THEN spc = "s_sleep" ELSE rpc = "r_sleep"
TReconTimer == /\ Is("ReconTimer") /\ Step /\ TUnch
               /\ IF Ev.who > 0 THEN SSleepDone /\ ~closed ELSE TimerFire
TReconWoken == /\ Is("ReconWoken") /\ Step /\ TUnch
               /\ IF Ev.who > 0 THEN SSleepWoken ELSE SleepInterrupted /\ wake /\ rpc' = "r_lockwait"
TReconParentDone == /\ Is("ReconParentDone") /\ Step /\ TUnch
                    /\ IF Ev.who > 0 THEN SSleepDone /\ closed ELSE SleepInterrupted /\ closed /\ rpc' = "loopend"

TBrokenReply == Is("BrokenReply") /\ Step /\ TUnch /\ Stutter /\ spc = "brokenreply" /\ cur = M
TCtxSkip == Is("CtxSkip") /\ Step /\ TUnch /\ CtxCheck /\ cur = M /\ sndErr'
TSndRLocked == Is("SndRLocked") /\ Step /\ TUnch /\ SRLock /\ cur = M
TWatcherCancel == Is("WatcherCancel") /\ Step /\ TUnch /\ WatcherFires(M)
TSendDone ==
  /\ Is("SendDone") /\ Step /\ UNCHANGED <<handed, stopping, srvUp, unrep, closing, lateErr, hfail, pendF, errSeen>>
  /\ SendDone /\ cur = M /\ (Ev.ok = ~sndErr')
  /\ UNCHANGED sentOn
TSndRUnlock == Is("SndRUnlock") /\ Step /\ TUnch /\ Stutter /\ "snd" \notin lkR
\* (for a send-waiting one-way request whose send failed the code routes twice: the
\* confirmation, then the error, which finds no router any more)
TSndMarker == /\ (Is("Confirm") \/ Is("ErrReply")) /\ Step /\ Stutter
              /\ UNCHANGED <<handed, sentOn, stopping, srvUp, unrep, closing, hfail, pendF, errSeen>>
              /\ IF spc = "confirm" /\ cur = M THEN UNCHANGED lateErr
                 ELSE Is("ErrReply") /\ Kind[M] = "sw" /\ lateErr = 0 /\ lateErr' = M
TLateErrRoute == /\ Is("Route") /\ Ev.why = "resp" /\ Step /\ Stutter /\ lateErr = M /\ M \notin routers /\ ~Ev.found
                 /\ lateErr' = 0 /\ UNCHANGED <<handed, sentOn, stopping, srvUp, unrep, closing, hfail, pendF, errSeen>>
\* (a request may be drained - by another goroutine - before its caller has logged the hand-off)
TDrainMarker == /\ Is("Drain") /\ Step /\ closed /\ UNCHANGED <<sentOn, stopping, srvUp, unrep, closing, lateErr, hfail, pendF, errSeen>>
                /\ IF M \in handed THEN Stutter /\ UNCHANGED handed
                   ELSE HandOffQueue(M) /\ handed' = handed \cup {M}
TSenderExit == Is("SenderExit") /\ Step /\ TUnch /\ (IF spc = "exited" THEN Stutter ELSE SenderExit)

(***************************************************************************)
(* Receiver                                                                *)
(***************************************************************************)
TRecvWait == Is("RecvWait") /\ Step /\ TUnch /\ RRLock /\ rpc' = "recv"
TRecvStreamReplaced == Is("RecvStreamReplaced") /\ Step /\ TUnch /\ RRLock /\ rpc' = "cancelpend2"
\* the reply that arrives is one of those on their way on this stream (the order
\* in which a server's handlers hand their replies to the connection's send
\* goroutine is not the order of the handlers' return events)
TRecvOk ==
  /\ Is("RecvOk") /\ Step /\ TUnch
  /\ rpc = "recv" /\ alive[rcvEpoch] # "nil"
  /\ \E i \in DOMAIN s2c[rcvEpoch] :
       /\ s2c[rcvEpoch][i] = M
       /\ s2c' = [s2c EXCEPT ![rcvEpoch] = SubSeq(@, 1, i - 1) \o SubSeq(@, i + 1, Len(@))]
  /\ rmsg' = M /\ lkR' = lkR \ {"rcv"} /\ rpc' = "route"
  /\ RUnch /\ UNCHANGED <<rcvLast, rcvFailed, resp, rcvEpoch, broken, wake, lkW, lkWait, epoch, alive, routers, rmBlocked>>
TRecvErr == Is("RecvErr") /\ Step /\ TUnch /\ RecvErr
TReceiverExit == Is("ReceiverExit") /\ Step /\ TUnch /\ Stutter /\ rpc = "exited"

(***************************************************************************)
(* Server and environment                                                  *)
(***************************************************************************)
THStart ==
  /\ Is("HStart") /\ Step /\ TUnch
  /\ LET e == sentOn[M] IN e > 0 /\ SrvStart(e) /\ mutHeld'[e] = M
THRelease ==
  /\ Is("HRelease") /\ Step /\ TUnch
  /\ LET e == sentOn[M] IN IF mutHeld[e] = M /\ <<e, M>> \in handlers THEN Release(e, M) ELSE Stutter
\* the handler function returns
THReturn ==
  /\ Is("HReturn") /\ Step /\ TUnch
  /\ LET e == sentOn[M] IN
       IF <<e, M>> \in handlers
         THEN /\ HandlerLeaves(e, M)
              /\ VUnch /\ UNCHANGED <<alive, c2s, s2c, items, started>>
         ELSE Stutter                     \* the handler's connection died with the server
\* The handler has produced a reply (or an item, or an error): from now on it may
\* reach the client.  (The event precedes the write; the order in which replies of
\* concurrent handlers reach the wire is left open, see TRecvOk.)
THReply ==
  /\ (Is("HReply") \/ Is("HFail")) /\ Step /\ UNCHANGED <<handed, sentOn, stopping, srvUp, unrep, closing, lateErr, pendF, errSeen>>
  /\ hfail' = IF Is("HFail") THEN hfail \cup {M} ELSE hfail
  /\ LET e == sentOn[M] IN
       IF e > 0 /\ <<e, M>> \in handlers /\ Kind[M] \in {"two", "stream"}
         THEN /\ s2c' = [s2c EXCEPT ![e] = Append(@, M)]
              /\ VUnch /\ UNCHANGED <<alive, c2s, mutHeld, handlers, items, started>>
         ELSE Stutter

TCtxEnd == Is("CtxEnd") /\ Step /\ TUnch /\ (IF ctx[M] = "live" /\ (cpc[M] # "done" \/ InTransit(M)) THEN CtxEnd(M) ELSE Stutter)
\* the node's context is cancelled at some instant between the two events
TNodeCancelBegin == /\ Is("NodeCancelBegin") /\ Step /\ Stutter /\ closing' = TRUE
                    /\ UNCHANGED <<handed, sentOn, stopping, srvUp, unrep, lateErr, hfail, pendF, errSeen>>
TNodeCancel == /\ Is("NodeCancel") /\ Step /\ Stutter /\ closed /\ closing' = FALSE
               /\ UNCHANGED <<handed, sentOn, stopping, srvUp, unrep, lateErr, hfail, pendF, errSeen>>

\* A server is stopped: it dies at some instant between the two events; a server
\* that listens again becomes reachable at some instant after the event.
TEnvStop == Is("EnvStop") /\ Step /\ Stutter /\ stopping' = TRUE /\ srvUp' = FALSE /\ UNCHANGED <<handed, sentOn, unrep, closing, lateErr, hfail, pendF, errSeen>>
TEnvStopped == Is("EnvStopped") /\ Step /\ Stutter /\ ~up /\ stopping' = FALSE /\ UNCHANGED <<handed, sentOn, srvUp, unrep, closing, lateErr, hfail, pendF, errSeen>>
TEnvStart == Is("EnvStart") /\ Step /\ Stutter /\ srvUp' = TRUE /\ UNCHANGED <<handed, sentOn, stopping, unrep, closing, lateErr, hfail, pendF, errSeen>>

(***************************************************************************)
(* Steps without an event of their own                                     *)
(***************************************************************************)
TakeSilently == \E r \in Reqs : r \notin unrep /\ Streaming(r) /\ Take(r) /\ unrep' = unrep \cup {r}
\* the announced response of another node reaches the shared reply channel / a caller's own answer is dropped
ForeignArrive == \E r \in Reqs : \E k \in {"fok", "ferr", "fown"} :
  /\ pendF[r][k] > 0 /\ cpc[r] # "done"
  /\ ForeignItemV(r, IF k = "fok" THEN "fok" ELSE "ferr")
  /\ pendF' = [pendF EXCEPT ![r][k] = @ - 1]
ForeignDrop == \E r \in Reqs :
  /\ pendF[r]["fown"] > 0 /\ Len(resp[r]) - taken[r] >= CapOf(r)
  /\ pendF' = [pendF EXCEPT ![r]["fown"] = @ - 1] /\ UNCHANGED vars
\* a streaming call counts a failing node once: a further error of a node that has been counted is taken
\* from the channel and dropped without an event
DropDup == \E r \in unrep :
  /\ Multi(r)
  /\ LET v == resp[r][taken[r]] IN
       \/ (v = "err" \/ (v = "ok" /\ r \in hfail)) /\ "own" \in errSeen[r]
       \/ v = "ferr" /\ "for" \in errSeen[r]
  /\ unrep' = unrep \ {r} /\ UNCHANGED vars
\* the message is on the wire before SendMsg returns
WriteSilently == SendWrite /\ sentOn' = [sentOn EXCEPT ![cur] = sndEpoch]
SilentStep ==
     \/ CheckConnected
     \/ ReadBrokenForReconnect
     \/ BrokenCheck
     \/ \E r \in Reqs : WatcherDecides(r)
     \/ CtxCheck /\ ~sndErr'                                   \* (the context has not ended: no event)
     \/ spc = "confirm" /\ Kind[cur] # "sw" /\ ~sndErr /\ Confirm   \* a successful two-way / no-send-waiting send
     \/ rpc = "r_lockwait" /\ "rcv" \notin lkWait /\ ~CanWLock("rcv") /\ RLockWait   \* the receiver starts to wait for the lock
     \/ RcvLoopEnd
     \/ rmBlocked /\ Route                                    \* a blocked delivery completes
     \/ stopping /\ Crash
     \/ closing /\ Close
     \/ srvUp /\ ~stopping /\ Restart
     \/ \E r \in Reqs : Foreign /\ ForeignItem(r)
     \/ \E r \in Reqs : DrainItem(r)                          \* a finished call drains its channel
\* a caller has put its request into the (buffered) send queue but has not logged HandOff yet: the queue
\* order is the order of the channel operations, not of the events
HandOffSilently == SendBuf > 0 /\ \E r \in Reqs : r \notin handed /\ HandOffQueue(r) /\ handed' = handed \cup {r}
Silent ==
  /\ UNCHANGED <<l, stopping, srvUp, closing, lateErr, hfail, errSeen>>
  /\ \/ TakeSilently /\ UNCHANGED <<sentOn, pendF, handed>>
     \/ WriteSilently /\ UNCHANGED <<unrep, pendF, handed>>
     \/ UNCHANGED <<unrep, sentOn, pendF, handed>> /\ SilentStep
     \/ UNCHANGED <<unrep, sentOn, handed>> /\ (ForeignArrive \/ ForeignDrop)
     \/ UNCHANGED <<sentOn, pendF, handed>> /\ DropDup
     \/ UNCHANGED <<unrep, sentOn, pendF>> /\ HandOffSilently

Consume ==
  \/ TRegisterRouter \/ THandOffWait \/ THandOff \/ TDequeue \/ TOwnMarker \/ TCallRecv \/ TCallConfirmOther \/ TFRoute \/ TCallEnd \/ TDeleteRouter
  \/ TRoute \/ TLateErrRoute \/ TCancelPending \/ TRouteDown
  \/ TSndConnect \/ TDial \/ TFirstStream \/ TReceiverStart \/ TReconLockBusy \/ TReconLocked \/ TReconSeeUp
  \/ TReconNewStream \/ TReconGiveUp \/ TReconSleep \/ TReconTimer \/ TReconWoken \/ TReconParentDone
  \/ TBrokenReply \/ TCtxSkip \/ TSndRLocked \/ TWatcherCancel \/ TSendDone \/ TSndRUnlock \/ TSndMarker
  \/ TDrainMarker \/ TSenderExit
  \/ TRecvWait \/ TRecvStreamReplaced \/ TRecvOk \/ TRecvErr \/ TReceiverExit
  \/ THStart \/ THRelease \/ THReturn \/ THReply \/ TCtxEnd \/ TNodeCancelBegin \/ TNodeCancel \/ TEnvStop \/ TEnvStopped \/ TEnvStart

TNext == (Consume /\ PrintT(<<"STEP", l>>)) \/ Silent
TSpec == TInit /\ [][TNext]_tvars

\* success signal: every line has been consumed
NotDone == l <= Len(Trace)
\* the safety properties of Channel.tla, in every state of the matching behaviours
\* (FifoPerConn of Channel.tla, evaluated on adjacent pairs: the hand-off order is a sequence without repetition)
EnqPos(x) == CHOOSE a \in DOMAIN enqOrder : enqOrder[a] = x
FifoFast == \A e \in Epochs : \A i \in 1..(Len(started[e]) - 1) : EnqPos(started[e][i]) < EnqPos(started[e][i + 1])
TraceInv == AtMostOneResponse /\ ConfirmOnlyOneWay /\ OneUnreleased /\ NoDoubleStart /\ NoPanic /\ FifoFast /\ NoLockWedge
=============================================================================
