----------------------------- MODULE ConfigTrace -----------------------------
(* Validates the operation sequences executed on real managers: the logged   *)
(* outcome of every operation must be one of Outcomes(op) of Config.tla, the  *)
(* listing of the new configuration must be the sorted duplicate-free list   *)
(* of that set with the pooled node objects and their addresses, and every   *)
(* configuration built earlier must be unchanged.                             *)
EXTENDS Config, Json, IOUtils

Trace == ndJsonDeserialize(IOEnv.TRACE)

VARIABLES l, bad
tvars == <<pool, cfgs, l, bad>>
Ev == Trace[l]

SeqRange(s) == {s[i] : i \in DOMAIN s}
StrictlyIncreasing(s) == \A i, j \in DOMAIN s : i < j => s[i] < s[j]
PoolOfLog(p) == [i \in {p[k][1] : k \in DOMAIN p} |-> (CHOOSE k \in DOMAIN p : p[k][1] = i) ]
PoolFn(p) == [i \in {p[k][1] : k \in DOMAIN p} |-> p[CHOOSE k \in DOMAIN p : p[k][1] = i][2]]

OpOf(j) ==
  CASE j.op = "list"     -> [op |-> "list", L |-> j.L]
    [] j.op = "map"      -> [op |-> "map", M |-> {<<j.M[i][1], j.M[i][2]>> : i \in DOMAIN j.M}]
    [] j.op = "ids"      -> [op |-> "ids", I |-> j.I]
    [] j.op = "without"  -> [op |-> "without", c |-> j.c, I |-> SeqRange(j.I)]
    [] j.op = "newnodes" -> [op |-> "newnodes", c |-> j.c, L |-> j.L]
    [] OTHER             -> [op |-> j.op, c |-> j.c, d |-> j.d]

TInit == CInit /\ l = 1 /\ bad = 0

TPath == /\ l <= Len(Trace) /\ Ev.ev = "Path"
         /\ pool' = <<>> /\ cfgs' = <<>> /\ l' = l + 1 /\ UNCHANGED bad

Outcome == [ok |-> Ev.ok, set |-> IF Ev.ok THEN SeqRange(Ev.ids) ELSE {}, pool |-> PoolFn(Ev.pool)]

OpOK ==
  /\ ~Ev.panicked
  /\ Len(Ev.pool) = Cardinality({Ev.pool[k][1] : k \in DOMAIN Ev.pool})      \* one pool entry per id
  /\ Valid(OpOf(Ev.op))
  /\ Outcome \in Outcomes(OpOf(Ev.op))
  /\ Ev.ok =>
       /\ StrictlyIncreasing(Ev.ids)                                          \* each node once, sorted by id
       /\ Ev.size = Len(Ev.ids) /\ Ev.agree /\ Ev.same
       /\ Len(Ev.addrs) = Len(Ev.ids)
       /\ \A i \in DOMAIN Ev.ids : Ev.addrs[i] = PoolFn(Ev.pool)[Ev.ids[i]]   \* carrying its address
  /\ LET after == IF Ev.ok THEN Append(cfgs, SeqRange(Ev.ids)) ELSE cfgs IN   \* operands unchanged
       /\ Len(Ev.all) = Len(after)
       /\ \A k \in DOMAIN after : StrictlyIncreasing(Ev.all[k]) /\ SeqRange(Ev.all[k]) = after[k]

TOp == /\ l <= Len(Trace) /\ Ev.ev = "Op" /\ OpOK
       /\ Apply(Outcome) /\ l' = l + 1 /\ UNCHANGED bad

NextPath(i) ==
  LET S == {j \in i+1..Len(Trace) : Trace[j].ev = "Path"}
  IN IF S = {} THEN Len(Trace) + 1 ELSE CHOOSE j \in S : \A k \in S : j <= k
TBad == /\ l <= Len(Trace) /\ Ev.ev = "Op" /\ ~OpOK
        /\ PrintT(<<"BAD", l, Ev.p, Ev.op.op>>)
        /\ l' = NextPath(l) /\ bad' = bad + 1 /\ UNCHANGED <<pool, cfgs>>

TNext == TPath \/ TOp \/ TBad
TSpec == TInit /\ [][TNext]_tvars
Accepted == PrintT(<<"DONE", TLCGet("stats").diameter>>)

TraceInv == NonEmpty /\ SubsetOfPool /\ OneAddrPerId /\ GeneratedIdsCarryTheirAddress
=============================================================================
