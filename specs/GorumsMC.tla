------------------------------ MODULE GorumsMC ------------------------------
(* Design-level exploration of the composition Gorums.tla for a small        *)
(* universe: two nodes, two concurrent calls of any two kinds (quorum call,  *)
(* streaming correctable, RPC, multicast with and without send-waiting) on   *)
(* the same nodes, every interleaving of issue loops, senders, server        *)
(* connections (one per node plus a second one for node 1: a re-created      *)
(* stream), handlers, receivers, routers, collection loops, context ends.    *)
EXTENDS Gorums

CONSTANTS MaxWritten, TwoCalls, SecondConn, Kinds, NNodes

Nodes == 1..NNodes
Msgs == IF TwoCalls THEN {1, 2} ELSE {1}
Conns == IF SecondConn THEN Nodes \cup {3} ELSE Nodes
ConnNode(c) == IF c = 3 THEN 1 ELSE c
AllShapes == {<<"qc", NNodes, FALSE, FALSE>>, <<"corr", NNodes, TRUE, FALSE>>, <<"rpc", 1, FALSE, FALSE>>,
              <<"mcast", NNodes, FALSE, FALSE>>, <<"mcast", NNodes, FALSE, TRUE>>}
Shapes == {s \in AllShapes : s[1] \in Kinds}
Outs == {"ok", "incomplete", "ctx", "reply", "nowait", "sent"}

MCNext ==
  \/ \E m \in Msgs, s \in Shapes : Start(m, m, s[1], s[2], s[3], s[4])
  \/ \E m \in Msgs, n \in Nodes :
       \/ Skip(m, n) /\ C(m).kind # "rpc"
       \/ Issuing(m) /\ RegisterAt(m, n, C(m).stream)
       \/ Offer(m, n)
       \/ HandedOff(m, n) /\ m \in GetS(offered, n) /\ m \notin GetS(queued, n)
       \/ OwnReply(m, n)
       \/ Enq(m, n) /\ (m \in GetS(offered, n) \/ <<n, m>> \in DOMAIN mustPrec)
       \/ Dequeue(m, n)
       \/ WriteStart(m, n) /\ ~InSeq(m, GetQ(written, n))
       \/ SenderDone(m, n)
       \/ HandlerProduce(n, m)
       \/ ClientRecv(n, m)
       \/ RouteWire(n, m, <<n, m>> \in routers, <<n, m>> \in stream)
            /\ Get0(okRouted, <<n, m>>) < Get0(received, <<n, m>>)
       \/ RouteOther(n, m, <<n, m>> \in routers, <<n, m>> \in stream) /\ <<n, m>> \in routers
       \/ RemoveRouter(n, m) /\ m \in ended /\ <<n, m>> \in routers
       \/ \E e \in BOOLEAN : Consume(m, n, e)
  \/ \E m \in Msgs :
       \/ Issuing(m) /\ Issued(m, Cardinality(C(m).enq))
       \/ Open(m) /\ \E q \in BOOLEAN : InvokeQF(m, C(m).qfn + 1, C(m).oks, q)
       \/ Confirmed(m) /\ \E n \in C(m).enq : Get(taken, <<n, m>>, 0) < Get(delivered, <<n, m>>, 0)
       \/ \E o \in Outs : Finish(m, o)
       \/ m \in used /\ m \notin ctxEnded /\ CtxEnds(m)
  \/ \E c \in Conns :
       \/ Accept(c, ConnNode(c))
       \/ \E m \in Msgs : SrvRecv(c, m) \/ HandlerStart(c, ConnNode(c), m) \/ (HandlerRelease(c, m) /\ Get0(unreleased, c) = m)

MCSpec == GInit /\ [][MCNext]_allvars

MCBound ==
  /\ \A n \in DOMAIN written : Len(written[n]) <= MaxWritten
  /\ \A k \in DOMAIN produced : produced[k] <= (IF C(k[2]).stream THEN 2 ELSE 1)
  /\ \A k \in DOMAIN delivered : delivered[k] <= 2

MCTypeOK ==
  /\ used \subseteq Msgs
  /\ \A n \in DOMAIN sending : sending[n] \in Msgs \cup {0}
  /\ \A c \in DOMAIN unreleased : unreleased[c] \in Msgs \cup {0}

\* reachability witnesses (each must be VIOLATED): no antecedent above is vacuous
W_QuorumOfTwo == ~(\E m \in used : C(m).out = "ok" /\ Cardinality(C(m).oks) = NNodes)
W_LateReplyDropped == ~(\E m \in used : C(m).out # "" /\ \E n \in Nodes : Get0(received, <<n, m>>) > Get0(okRouted, <<n, m>>) /\ <<n, m>> \notin routers /\ Get0(received, <<n,m>>) = 1 /\ C(m).kind = "qc")
W_SecondConn == ~(\E m \in used : 3 \in DOMAIN srvRecvd /\ Len(srvRecvd[3]) > 0)
=============================================================================
