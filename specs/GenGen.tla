-------------------------------- MODULE GenGen --------------------------------
(* Enumerates the service definitions replayed against the plugin.            *)
EXTENDS Gen, Json, CSV, IOUtils

CONSTANTS Pairs

RECURSIVE SetToSeq(_)
SetToSeq(S) == IF S = {} THEN <<>> ELSE LET x == CHOOSE y \in S : TRUE IN <<x>> \o SetToSeq(S \ {x})
J(m) == [ct |-> SetToSeq(m.ct), pn |-> m.pn, cu |-> m.cu, cs |-> m.cs, ss |-> m.ss, io |-> m.io, v |-> MVerdict(m)]

Singles == {m \in Methods : Cardinality(m.ct) <= 2 \/ m.ct = {"correctable", "quorumcall", "async"}}
DocSimple == {m \in Methods : Documented(m) /\ m.io = "local"}
Reserved == {"Configuration", "Node", "Manager", "QuorumSpec"}

Base(ms, r, n) == [methods |-> ms, reserved |-> r, nsvc |-> n, ext |-> "ext", naming |-> "Camel"]
QCPlain == {x \in DocSimple : x.ct = {"quorumcall"} /\ ~x.pn /\ ~x.cu}
Services ==
  {Base(<<m>>, "", 1) : m \in Singles}
  \cup (IF Pairs THEN {Base(<<a, b>>, "", 1) : a \in DocSimple, b \in DocSimple} ELSE {})
  \cup {Base(<<m>>, r, 1) : m \in QCPlain, r \in Reserved}
  \cup {Base(<<m>>, "", 2) : m \in QCPlain}
  \* every documented method with a request or response type imported from a package of every name class
  \cup {[Base(<<m>>, "", 1) EXCEPT !.ext = e] : m \in {x \in Methods : Documented(x) /\ x.io \in {"extin", "extout"}}, e \in ExtPkgs}
  \* every documented method under every naming style
  \cup {[Base(<<m>>, "", 1) EXCEPT !.naming = n] : m \in DocSimple, n \in Namings}

VARIABLE svc
Init == svc \in Services
Next == UNCHANGED svc
Spec == Init /\ [][Next]_svc

\* the lattice is covered: every verdict occurs, every documented method is accepted
ASSUME \A v \in {"accept", "reject", "either"} : \E s \in Services : Verdict(s) = v
ASSUME \A m \in Methods : Documented(m) => ~Illegal(m)

Emit == CSVWrite("%1$s", <<ToJson([methods |-> [i \in DOMAIN svc.methods |-> J(svc.methods[i])],
                                   reserved |-> svc.reserved, nsvc |-> svc.nsvc, ext |-> svc.ext, naming |-> svc.naming,
                                   verdict |-> Verdict(svc)])>>, IOEnv.GEN_OUT)
=============================================================================
