------------------------------ MODULE LifeTrace ------------------------------
(***************************************************************************)
(* Lifecycle guarantees (C08, C09, C10, C12) over API-level events of      *)
(* scripted scenarios.  The scenarios reach, with gates on library         *)
(* goroutines and faults on the servers, the interleavings that TLC        *)
(* exhibits on Channel.tla; this module judges what the real code did:     *)
(* at every Quiescent event (no library event for the quiescence period,   *)
(* every gorums timer of the scenario configured far beyond or far below   *)
(* that period)                                                            *)
(*   C08  a call whose context has ended has returned (its future /        *)
(*        correctable has completed)                                       *)
(*   C09/C10  every probe call to a reachable node was answered            *)
(*   C12  after Close returned: every call has returned, calls issued      *)
(*        afterwards failed, no library goroutine is left, nothing panicked*)
(* These are the quiescent invariants CtxPrompt, NoStrandedCall and        *)
(* CloseTerminates of Channel.tla, read on the real execution.             *)
(***************************************************************************)
EXTENDS Integers, Sequences, FiniteSets, TLC, Json, IOUtils

Trace == ndJsonDeserialize(IOEnv.TRACE)

VARIABLES l, bad, calls, ctxEnded, served, result, closeReturned, postClose,
          mdExpected,   \* the scenario configured general and per-node metadata
          accepted,     \* connection -> node, for the connections whose connect callback has run
          announced     \* connections the server loop has accepted
tvars == <<l, bad, calls, ctxEnded, served, result, closeReturned, postClose, mdExpected, accepted, announced>>
Ev == Trace[l]
Is(e) == l <= Len(Trace) /\ Trace[l].ev = e
Step == l' = l + 1 /\ UNCHANGED bad

TInit == l = 1 /\ bad = 0 /\ calls = <<>> /\ ctxEnded = {} /\ served = {} /\ result = <<>>
         /\ closeReturned = FALSE /\ postClose = {} /\ mdExpected = FALSE /\ accepted = <<>> /\ announced = {}

TScen == /\ Is("Scen") /\ Step /\ Ev.infeasible = ""
         /\ calls' = <<>> /\ ctxEnded' = {} /\ served' = {} /\ result' = <<>> /\ closeReturned' = FALSE /\ postClose' = {}
         /\ mdExpected' = FALSE /\ accepted' = <<>> /\ announced' = {}

TwoWayKinds == {"rpc", "qc", "async", "corr", "corrstream"}
MdSame == UNCHANGED <<mdExpected, accepted, announced>>
\* C10: the metadata every connection of node n must carry
MdOf(n) == "v-general=g;v-node=" \o ToString(n)

QuiescentOK ==
  \* C18: once every call is served no per-call goroutine is left
  /\ (\A t \in DOMAIN calls : t \in served) => Ev.callgoroutines = 0
  /\ \A t \in ctxEnded : t \in served                                          \* C08
  /\ \A t \in DOMAIN calls : calls[t].probe => (t \in served /\ t \in DOMAIN result /\ result[t] = "ok")   \* C09, C10
  /\ closeReturned =>
       /\ \A t \in DOMAIN calls : t \in served                                 \* C12: no caller stranded
       /\ \A t \in postClose : calls[t].kind \in TwoWayKinds => (t \in DOMAIN result /\ result[t] # "ok")
       /\ Ev.libgoroutines = 0

TNormal ==
  \/ /\ Is("StubCall") /\ Step
     /\ calls' = (Ev.tok :> [probe |-> Ev.probe, kind |-> Ev.kind]) @@ calls
     /\ postClose' = IF closeReturned THEN postClose \cup {Ev.tok} ELSE postClose
     /\ UNCHANGED <<ctxEnded, served, result, closeReturned>> /\ MdSame
  \/ /\ (Is("CtxEnd") \/ Is("MustServe")) /\ Step /\ ctxEnded' = ctxEnded \cup {Ev.tok}
     \* (MustServe: the connection of a pending call broke: the call has to be completed
     \*  with an error without any help, like a call whose context ended)
     /\ UNCHANGED <<calls, served, result, closeReturned, postClose>> /\ MdSame
  \/ /\ Is("StubRet") /\ Step /\ ~Ev.panicked
     /\ result' = (Ev.tok :> Ev.tag) @@ result
     /\ UNCHANGED <<calls, ctxEnded, served, closeReturned, postClose>> /\ MdSame
  \* the outcome of a future / correctable is the outcome of the call
  \/ /\ Is("CallServed") /\ Step /\ served' = served \cup {Ev.tok}
     /\ result' = IF Ev.tag # "" THEN (Ev.tok :> Ev.tag) @@ result ELSE result
     /\ UNCHANGED <<calls, ctxEnded, closeReturned, postClose>> /\ MdSame
  \/ /\ Is("CloseCall") /\ Step /\ UNCHANGED <<calls, ctxEnded, served, result, closeReturned, postClose>> /\ MdSame
  \/ /\ Is("CloseReturned") /\ Step /\ ~Ev.panicked /\ closeReturned' = TRUE
     /\ UNCHANGED <<calls, ctxEnded, served, result, postClose>> /\ MdSame
  \/ /\ (Is("SenderExit") \/ Is("ReceiverExit")) /\ Step
     /\ UNCHANGED <<calls, ctxEnded, served, result, closeReturned, postClose>> /\ MdSame
  \/ /\ Is("Quiescent") /\ Step /\ QuiescentOK
     /\ UNCHANGED <<calls, ctxEnded, served, result, closeReturned, postClose>> /\ MdSame
  \* C18: the router tables are empty when the scenario is over
  \/ /\ Is("Routers") /\ Step /\ Ev.count = 0
     /\ UNCHANGED <<calls, ctxEnded, served, result, closeReturned, postClose>> /\ MdSame
  \* C10: metadata and connect callback, once per connection
  \/ /\ Is("MetadataExpected") /\ Step /\ mdExpected' = TRUE
     /\ UNCHANGED <<calls, ctxEnded, served, result, closeReturned, postClose, accepted, announced>>
  \/ /\ Is("HAccept") /\ Step                 \* the server's connect callback runs
     /\ Ev.conn \notin DOMAIN accepted       \* once per connection
     /\ mdExpected => Ev.md = MdOf(Ev.node)
     /\ accepted' = (Ev.conn :> Ev.node) @@ accepted
     /\ UNCHANGED <<calls, ctxEnded, served, result, closeReturned, postClose, mdExpected, announced>>
  \/ /\ Is("SrvAccept") /\ Step              \* the server loop goes on after the callback
     /\ Ev.conn \in DOMAIN accepted /\ Ev.conn \notin announced
     /\ announced' = announced \cup {Ev.conn}
     /\ UNCHANGED <<calls, ctxEnded, served, result, closeReturned, postClose, mdExpected, accepted>>
  \* at the end of the metadata scenario both nodes have been connected at least
  \* twice in total (initial connection of node 1, its reconnection, node 2's first)
  \/ /\ Is("MetadataDone") /\ Step
     /\ Cardinality({c \in DOMAIN accepted : accepted[c] = 1}) >= 2
     /\ Cardinality({c \in DOMAIN accepted : accepted[c] = 2}) >= 1
     /\ UNCHANGED <<calls, ctxEnded, served, result, closeReturned, postClose>> /\ MdSame
  \* ProcessDied matches nothing

NextScen(i) ==
  LET S == {j \in i+1..Len(Trace) : Trace[j].ev = "Scen"}
  IN IF S = {} THEN Len(Trace) + 1 ELSE CHOOSE j \in S : \A k \in S : j <= k
TBad == /\ l <= Len(Trace) /\ ~(Is("Scen") /\ Ev.infeasible = "") /\ ~ENABLED TNormal
        /\ PrintT(<<"BAD", l, Ev.t, Ev.ev>>)
        /\ l' = NextScen(l) /\ bad' = bad + 1
        /\ UNCHANGED <<calls, ctxEnded, served, result, closeReturned, postClose>> /\ MdSame

TNext == TScen \/ TNormal \/ TBad
TSpec == TInit /\ [][TNext]_tvars
Accepted == PrintT(<<"DONE", TLCGet("stats").diameter>>)
=============================================================================
