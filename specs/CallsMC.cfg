SPECIFICATION Spec
CONSTANTS
  MaxN = 2
  MaxItems = 2
  Devs = {}
INVARIANTS
  OutIsQFVerdict QFNeverAfterQuorum QFSetsGrow QFNoFailedNode QFOnlyTargets QFCurrent
  OutcomeExact ReturnedOnlyWithOutcome QuiescentOK
  SkippedNotCounted ErrorsNameNodesOnce FailedNotReplied OneWayNoHandlerWait
  CorrPublishedAtOnce CorrDoneIffReturned CorrValueFromQF TypedGetTotal
PROPERTIES
  LevelMonotone DoneFinal OutFinal QFStepwise
CHECK_DEADLOCK FALSE
