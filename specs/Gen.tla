--------------------------------- MODULE Gen ---------------------------------
(***************************************************************************)
(* The protoc-gen-gorums plugin (C16, C17) over the lattice of service     *)
(* definitions that doc/method-options.md distinguishes.                   *)
(*                                                                         *)
(* A method is [ct: set of call-type options, pn: per_node_arg, cu:        *)
(* custom_return_type (a message defined in the file), cs / ss: client /   *)
(* server streaming, io: where request and response types come from].      *)
(* Verdict says what the documentation requires of the plugin; Acceptable  *)
(* relates it to what a run of the plugin did; Binding gives, for every    *)
(* accepted method, what the generated stub and the generated server       *)
(* registration must say.                                                  *)
(***************************************************************************)
EXTENDS Integers, Sequences, FiniteSets, TLC

CallTypes == {"quorumcall", "async", "correctable", "multicast", "unicast"}
\* where the request / response type comes from: this file, the well-known Empty, or a
\* message imported from another Go package (extin / extout) whose package name is the
\* service definition's ext field
IOs == {"local", "emptyin", "emptyout", "extin", "extout"}
\* Go package names of an imported message: an ordinary one and names that the static
\* part of every generated file uses itself
ExtPkgs == {"ext", "encoding", "fmt", "gorums", "context", "proto"}
\* how the rpc names of a service are written; the stub is named GoCamelCase(name), the
\* wire name is the name as written
Namings == {"Camel", "lowerCamel", "snake", "lower"}

Methods == [ct : SUBSET CallTypes, pn : BOOLEAN, cu : BOOLEAN, cs : BOOLEAN, ss : BOOLEAN, io : IOs]

\* the documented illegal stream / option combinations (of a method that selects a
\* call type: the option async alone does not make a method a Gorums method)
Illegal(m) ==
  /\ m.ct # {"async"}
  /\ \/ m.cs /\ "multicast" \notin m.ct
     \/ m.ss /\ "correctable" \notin m.ct
     \/ "correctable" \in m.ct /\ m.cs

\* the combinations the documentation's matrix allows
Documented(m) ==
  /\ ~m.cs
  /\ \/ m.ct = {} /\ ~m.pn /\ ~m.cu /\ ~m.ss
     \/ m.ct = {"unicast"} /\ ~m.pn /\ ~m.cu /\ ~m.ss
     \/ m.ct = {"multicast"} /\ ~m.cu /\ ~m.ss
     \/ m.ct = {"quorumcall"} /\ ~m.ss
     \/ m.ct = {"quorumcall", "async"} /\ ~m.ss
     \/ m.ct = {"correctable"}

MVerdict(m) == IF Illegal(m) THEN "reject" ELSE IF Documented(m) THEN "accept" ELSE "either"

\* a service definition: methods (with distinct names), a reserved message name or "", number of
\* services, the package name of imported messages and the naming style of its rpcs (any
\* non-reserved name is allowed: neither changes the verdict)
Verdict(s) ==
  CASE s.reserved # "" -> "reject"
    [] \E i \in DOMAIN s.methods : MVerdict(s.methods[i]) = "reject" -> "reject"
    [] s.nsvc = 1 /\ \A i \in DOMAIN s.methods : MVerdict(s.methods[i]) = "accept" -> "accept"
    [] OTHER -> "either"

\* C16: what a run of the plugin may do.  o = [diag, out, compiles, same, timeout, died]
\* same: three runs on the same request give the same result, and what is emitted for a file is
\* the same when the file is generated together with another file (either order) in one request
Acceptable(v, o) ==
  /\ ~o.timeout /\ ~o.died /\ o.same
  /\ CASE v = "accept" -> ~o.diag /\ o.out /\ o.compiles
       [] v = "reject" -> o.diag /\ ~o.out
       [] OTHER        -> o.diag \/ o.compiles          \* diagnostic or compiling output (none counts as compiling)

\* C17: the binding of an accepted method
Entry(m) ==
  CASE m.ct = {} -> "RPCCall"
    [] m.ct = {"unicast"} -> "Unicast"
    [] m.ct = {"multicast"} -> "Multicast"
    [] m.ct = {"quorumcall"} -> "QuorumCall"
    [] m.ct = {"quorumcall", "async"} -> "AsyncCall"
    [] m.ct = {"correctable"} -> "CorrectableCall"
OnNode(m) == m.ct \in {{}, {"unicast"}}
HasQF(m)  == m.ct \in {{"quorumcall"}, {"quorumcall", "async"}, {"correctable"}}
OneWayM(m) == m.ct \in {{"unicast"}, {"multicast"}}
Binding(m, full, goname) ==
  [recv |-> IF OnNode(m) THEN "Node" ELSE "Configuration",
   entry |-> Entry(m),
   method |-> full,                                     \* the fully-qualified name, on both sides
   registered |-> full,
   sstream |-> (m.ct = {"correctable"} /\ m.ss),
   pernode |-> (m.pn /\ ~OnNode(m)),
   qf |-> IF HasQF(m) THEN goname \o "QF" ELSE "",
   server |-> IF OneWayM(m) THEN "oneway" ELSE IF m.ct = {"correctable"} /\ m.ss THEN "stream" ELSE "unary"]
=============================================================================
