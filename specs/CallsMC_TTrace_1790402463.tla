---- MODULE CallsMC_TTrace_1790402463 ----
EXTENDS Sequences, TLCExt, Toolbox, CallsMC, Naturals, TLC

_expression ==
    LET CallsMC_TEExpression == INSTANCE CallsMC_TEExpression
    IN CallsMC_TEExpression!expression
----

_trace ==
    LET CallsMC_TETrace == INSTANCE CallsMC_TETrace
    IN CallsMC_TETrace!trace
----

_inv ==
    ~(
        TLCGet("level") = Len(_TETrace)
        /\
        errs = (<<>>)
        /\
        corr = ([done |-> TRUE, level |-> -2, val |-> [src |-> "node", node |-> 1], err |-> "none"])
        /\
        ctx = ("live")
        /\
        expected = (2)
        /\
        nprod = (<<1, 1>>)
        /\
        qfLog = (<<[level |-> -1, set |-> (2 :> 2), q |-> FALSE, val |-> 2], [level |-> -2, set |-> <<2, 2>>, q |-> TRUE, val |-> 4]>>)
        /\
        fin = (<<TRUE, TRUE>>)
        /\
        nxt = (3)
        /\
        confirmed = ({})
        /\
        sent = ({1, 2})
        /\
        out = ([qf |-> 2, tag |-> "ok"])
        /\
        sc = ([n |-> 2, kind |-> "corr", pn |-> <<"same", "same">>, qf |-> "thr", k |-> 2, lv |-> "nonmono", nsw |-> FALSE, custom |-> FALSE, vals |-> {1, 2}])
        /\
        clevel = (-1)
        /\
        wire = (<<<<>>, <<>>>>)
        /\
        pc = ("returned")
        /\
        replies = (<<2, 2>>)
    )
----

_init ==
    /\ expected = _TETrace[1].expected
    /\ nxt = _TETrace[1].nxt
    /\ nprod = _TETrace[1].nprod
    /\ ctx = _TETrace[1].ctx
    /\ wire = _TETrace[1].wire
    /\ out = _TETrace[1].out
    /\ pc = _TETrace[1].pc
    /\ confirmed = _TETrace[1].confirmed
    /\ sc = _TETrace[1].sc
    /\ corr = _TETrace[1].corr
    /\ clevel = _TETrace[1].clevel
    /\ replies = _TETrace[1].replies
    /\ errs = _TETrace[1].errs
    /\ sent = _TETrace[1].sent
    /\ qfLog = _TETrace[1].qfLog
    /\ fin = _TETrace[1].fin
----

_next ==
    /\ \E i,j \in DOMAIN _TETrace:
        /\ \/ /\ j = i + 1
              /\ i = TLCGet("level")
        /\ expected  = _TETrace[i].expected
        /\ expected' = _TETrace[j].expected
        /\ nxt  = _TETrace[i].nxt
        /\ nxt' = _TETrace[j].nxt
        /\ nprod  = _TETrace[i].nprod
        /\ nprod' = _TETrace[j].nprod
        /\ ctx  = _TETrace[i].ctx
        /\ ctx' = _TETrace[j].ctx
        /\ wire  = _TETrace[i].wire
        /\ wire' = _TETrace[j].wire
        /\ out  = _TETrace[i].out
        /\ out' = _TETrace[j].out
        /\ pc  = _TETrace[i].pc
        /\ pc' = _TETrace[j].pc
        /\ confirmed  = _TETrace[i].confirmed
        /\ confirmed' = _TETrace[j].confirmed
        /\ sc  = _TETrace[i].sc
        /\ sc' = _TETrace[j].sc
        /\ corr  = _TETrace[i].corr
        /\ corr' = _TETrace[j].corr
        /\ clevel  = _TETrace[i].clevel
        /\ clevel' = _TETrace[j].clevel
        /\ replies  = _TETrace[i].replies
        /\ replies' = _TETrace[j].replies
        /\ errs  = _TETrace[i].errs
        /\ errs' = _TETrace[j].errs
        /\ sent  = _TETrace[i].sent
        /\ sent' = _TETrace[j].sent
        /\ qfLog  = _TETrace[i].qfLog
        /\ qfLog' = _TETrace[j].qfLog
        /\ fin  = _TETrace[i].fin
        /\ fin' = _TETrace[j].fin

\* Uncomment the ASSUME below to write the states of the error trace
\* to the given file in Json format. Note that you can pass any tuple
\* to `JsonSerialize`. For example, a sub-sequence of _TETrace.
    \* ASSUME
    \*     LET J == INSTANCE Json
    \*         IN J!JsonSerialize("CallsMC_TTrace_1790402463.json", _TETrace)

=============================================================================

 Note that you can extract this module `CallsMC_TEExpression`
  to a dedicated file to reuse `expression` (the module in the 
  dedicated `CallsMC_TEExpression.tla` file takes precedence 
  over the module `CallsMC_TEExpression` below).

---- MODULE CallsMC_TEExpression ----
EXTENDS Sequences, TLCExt, Toolbox, CallsMC, Naturals, TLC

expression == 
    [
        \* To hide variables of the `CallsMC` spec from the error trace,
        \* remove the variables below.  The trace will be written in the order
        \* of the fields of this record.
        expected |-> expected
        ,nxt |-> nxt
        ,nprod |-> nprod
        ,ctx |-> ctx
        ,wire |-> wire
        ,out |-> out
        ,pc |-> pc
        ,confirmed |-> confirmed
        ,sc |-> sc
        ,corr |-> corr
        ,clevel |-> clevel
        ,replies |-> replies
        ,errs |-> errs
        ,sent |-> sent
        ,qfLog |-> qfLog
        ,fin |-> fin
        
        \* Put additional constant-, state-, and action-level expressions here:
        \* ,_stateNumber |-> _TEPosition
        \* ,_expectedUnchanged |-> expected = expected'
        
        \* Format the `expected` variable as Json value.
        \* ,_expectedJson |->
        \*     LET J == INSTANCE Json
        \*     IN J!ToJson(expected)
        
        \* Lastly, you may build expressions over arbitrary sets of states by
        \* leveraging the _TETrace operator.  For example, this is how to
        \* count the number of times a spec variable changed up to the current
        \* state in the trace.
        \* ,_expectedModCount |->
        \*     LET F[s \in DOMAIN _TETrace] ==
        \*         IF s = 1 THEN 0
        \*         ELSE IF _TETrace[s].expected # _TETrace[s-1].expected
        \*             THEN 1 + F[s-1] ELSE F[s-1]
        \*     IN F[_TEPosition - 1]
    ]

=============================================================================



Parsing and semantic processing can take forever if the trace below is long.
 In this case, it is advised to uncomment the module below to deserialize the
 trace from a generated binary file.

\*
\*---- MODULE CallsMC_TETrace ----
\*EXTENDS IOUtils, CallsMC, TLC
\*
\*trace == IODeserialize("CallsMC_TTrace_1790402463.bin", TRUE)
\*
\*=============================================================================
\*

---- MODULE CallsMC_TETrace ----
EXTENDS CallsMC, TLC

trace == 
    <<
    ([errs |-> <<>>,corr |-> [done |-> FALSE, level |-> -1, val |-> [src |-> "none"], err |-> "none"],ctx |-> "live",expected |-> 2,nprod |-> <<0, 0>>,qfLog |-> <<>>,fin |-> <<FALSE, FALSE>>,nxt |-> 1,confirmed |-> {},sent |-> {},out |-> [tag |-> "none"],sc |-> [n |-> 2, kind |-> "corr", pn |-> <<"same", "same">>, qf |-> "thr", k |-> 2, lv |-> "nonmono", nsw |-> FALSE, custom |-> FALSE, vals |-> {1, 2}],clevel |-> -1,wire |-> <<<<>>, <<>>>>,pc |-> "init",replies |-> <<>>]),
    ([errs |-> <<>>,corr |-> [done |-> FALSE, level |-> -1, val |-> [src |-> "none"], err |-> "none"],ctx |-> "live",expected |-> 2,nprod |-> <<0, 0>>,qfLog |-> <<>>,fin |-> <<FALSE, FALSE>>,nxt |-> 1,confirmed |-> {},sent |-> {},out |-> [tag |-> "none"],sc |-> [n |-> 2, kind |-> "corr", pn |-> <<"same", "same">>, qf |-> "thr", k |-> 2, lv |-> "nonmono", nsw |-> FALSE, custom |-> FALSE, vals |-> {1, 2}],clevel |-> -1,wire |-> <<<<>>, <<>>>>,pc |-> "issuing",replies |-> <<>>]),
    ([errs |-> <<>>,corr |-> [done |-> FALSE, level |-> -1, val |-> [src |-> "none"], err |-> "none"],ctx |-> "live",expected |-> 2,nprod |-> <<0, 0>>,qfLog |-> <<>>,fin |-> <<FALSE, FALSE>>,nxt |-> 2,confirmed |-> {},sent |-> {1},out |-> [tag |-> "none"],sc |-> [n |-> 2, kind |-> "corr", pn |-> <<"same", "same">>, qf |-> "thr", k |-> 2, lv |-> "nonmono", nsw |-> FALSE, custom |-> FALSE, vals |-> {1, 2}],clevel |-> -1,wire |-> <<<<>>, <<>>>>,pc |-> "issuing",replies |-> <<>>]),
    ([errs |-> <<>>,corr |-> [done |-> FALSE, level |-> -1, val |-> [src |-> "none"], err |-> "none"],ctx |-> "live",expected |-> 2,nprod |-> <<0, 0>>,qfLog |-> <<>>,fin |-> <<FALSE, FALSE>>,nxt |-> 3,confirmed |-> {},sent |-> {1, 2},out |-> [tag |-> "none"],sc |-> [n |-> 2, kind |-> "corr", pn |-> <<"same", "same">>, qf |-> "thr", k |-> 2, lv |-> "nonmono", nsw |-> FALSE, custom |-> FALSE, vals |-> {1, 2}],clevel |-> -1,wire |-> <<<<>>, <<>>>>,pc |-> "issuing",replies |-> <<>>]),
    ([errs |-> <<>>,corr |-> [done |-> FALSE, level |-> -1, val |-> [src |-> "none"], err |-> "none"],ctx |-> "live",expected |-> 2,nprod |-> <<0, 0>>,qfLog |-> <<>>,fin |-> <<FALSE, FALSE>>,nxt |-> 3,confirmed |-> {},sent |-> {1, 2},out |-> [tag |-> "none"],sc |-> [n |-> 2, kind |-> "corr", pn |-> <<"same", "same">>, qf |-> "thr", k |-> 2, lv |-> "nonmono", nsw |-> FALSE, custom |-> FALSE, vals |-> {1, 2}],clevel |-> -1,wire |-> <<<<>>, <<>>>>,pc |-> "waiting",replies |-> <<>>]),
    ([errs |-> <<>>,corr |-> [done |-> FALSE, level |-> -1, val |-> [src |-> "none"], err |-> "none"],ctx |-> "live",expected |-> 2,nprod |-> <<1, 0>>,qfLog |-> <<>>,fin |-> <<TRUE, FALSE>>,nxt |-> 3,confirmed |-> {},sent |-> {1, 2},out |-> [tag |-> "none"],sc |-> [n |-> 2, kind |-> "corr", pn |-> <<"same", "same">>, qf |-> "thr", k |-> 2, lv |-> "nonmono", nsw |-> FALSE, custom |-> FALSE, vals |-> {1, 2}],clevel |-> -1,wire |-> <<<<[val |-> 2, err |-> FALSE]>>, <<>>>>,pc |-> "waiting",replies |-> <<>>]),
    ([errs |-> <<>>,corr |-> [done |-> FALSE, level |-> -1, val |-> [src |-> "none"], err |-> "none"],ctx |-> "live",expected |-> 2,nprod |-> <<1, 1>>,qfLog |-> <<>>,fin |-> <<TRUE, TRUE>>,nxt |-> 3,confirmed |-> {},sent |-> {1, 2},out |-> [tag |-> "none"],sc |-> [n |-> 2, kind |-> "corr", pn |-> <<"same", "same">>, qf |-> "thr", k |-> 2, lv |-> "nonmono", nsw |-> FALSE, custom |-> FALSE, vals |-> {1, 2}],clevel |-> -1,wire |-> <<<<[val |-> 2, err |-> FALSE]>>, <<[val |-> 2, err |-> FALSE]>>>>,pc |-> "waiting",replies |-> <<>>]),
    ([errs |-> <<>>,corr |-> [done |-> FALSE, level |-> -1, val |-> [src |-> "none"], err |-> "none"],ctx |-> "live",expected |-> 2,nprod |-> <<1, 1>>,qfLog |-> <<[level |-> -1, set |-> (2 :> 2), q |-> FALSE, val |-> 2]>>,fin |-> <<TRUE, TRUE>>,nxt |-> 3,confirmed |-> {},sent |-> {1, 2},out |-> [tag |-> "none"],sc |-> [n |-> 2, kind |-> "corr", pn |-> <<"same", "same">>, qf |-> "thr", k |-> 2, lv |-> "nonmono", nsw |-> FALSE, custom |-> FALSE, vals |-> {1, 2}],clevel |-> -1,wire |-> <<<<[val |-> 2, err |-> FALSE]>>, <<>>>>,pc |-> "waiting",replies |-> (2 :> 2)]),
    ([errs |-> <<>>,corr |-> [done |-> TRUE, level |-> -2, val |-> [src |-> "node", node |-> 1], err |-> "none"],ctx |-> "live",expected |-> 2,nprod |-> <<1, 1>>,qfLog |-> <<[level |-> -1, set |-> (2 :> 2), q |-> FALSE, val |-> 2], [level |-> -2, set |-> <<2, 2>>, q |-> TRUE, val |-> 4]>>,fin |-> <<TRUE, TRUE>>,nxt |-> 3,confirmed |-> {},sent |-> {1, 2},out |-> [qf |-> 2, tag |-> "ok"],sc |-> [n |-> 2, kind |-> "corr", pn |-> <<"same", "same">>, qf |-> "thr", k |-> 2, lv |-> "nonmono", nsw |-> FALSE, custom |-> FALSE, vals |-> {1, 2}],clevel |-> -1,wire |-> <<<<>>, <<>>>>,pc |-> "returned",replies |-> <<2, 2>>])
    >>
----


=============================================================================

---- CONFIG CallsMC_TTrace_1790402463 ----
CONSTANTS
    MaxN = 2
    MaxItems = 2
    Devs = { "NoTargetsNoExhaustion" , "CorrNoIntermediatePublish" , "CorrPublishesNodeReply" , "TypedGetPanicsBeforeFirstReply" , "OneWayConfirmIgnoresCtx" , "CorrFinalLevelMayDrop" }

INVARIANT
    _inv

CHECK_DEADLOCK
    \* CHECK_DEADLOCK off because of PROPERTY or INVARIANT above.
    FALSE

INIT
    _init

NEXT
    _next

CONSTANT
    _TETrace <- _trace

ALIAS
    _expression
=============================================================================
\* Generated on Sat Sep 26 06:01:05 UTC 2026