---------------------------- MODULE GorumsTrace ----------------------------
(* Validates complete recorded executions of free workloads - every call of  *)
(* every goroutine on every node, client and server side in one trace -      *)
(* against Gorums.tla, event by event.  Sections start with a Prog line and  *)
(* end with ProgEnd (what the driver does afterwards - closing the manager - *)
(* is not part of the workload).  Every line is consumed; an event that no   *)
(* action of the specification explains is reported (BAD) and the rest of    *)
(* the section is skipped.  Events of finer grain than this module (locks,   *)
(* gates, reconnection) are stuttering steps here; ChannelTrace.tla checks   *)
(* them per node.                                                            *)
EXTENDS Gorums, Json, IOUtils

Trace == ndJsonDeserialize(IOEnv.TRACE)
VARIABLES l, bad, live
tvars == <<allvars, l, bad, live>>
Ev == Trace[l]
Is(e) == l <= Len(Trace) /\ Trace[l].ev = e
F(name, d) == IF name \in DOMAIN Ev THEN Ev[name] ELSE d
K == <<Ev.node, Ev.msg>>
CountOnP(n) == Cardinality({k \in routers' : k[1] = n})
M == msgOf[Ev.tok]
HasM == Ev.tok \in DOMAIN msgOf
SetOf(q) == {q[i] : i \in DOMAIN q}

TInit == GInit /\ l = 1 /\ bad = 0 /\ live = FALSE

TProg == /\ Is("Prog")
         /\ l' = l + 1 /\ live' = TRUE /\ UNCHANGED bad
         /\ routers' = {} /\ stream' = {} /\ delivered' = <<>> /\ taken' = <<>> /\ ended' = {} /\ everReg' = {}
         /\ errTaken' = {}
         /\ used' = {} /\ msgOf' = <<>> /\ call' = <<>> /\ ctxEnded' = {}
         /\ offered' = <<>> /\ queued' = <<>> /\ mustPrec' = <<>> /\ sending' = <<>> /\ written' = <<>>
         /\ connNode' = <<>> /\ srvIdx' = <<>> /\ srvRecvd' = <<>> /\ nStarted' = <<>> /\ unreleased' = <<>>
         /\ hOf' = {} /\ produced' = <<>> /\ received' = <<>> /\ okRouted' = <<>> /\ okTaken' = <<>>

\* the stub's result agrees with the outcome the specification has computed
StubOK(m) ==
  LET c == C(m) IN
  CASE c.kind = "qc" ->
         /\ c.out # ""
         /\ (Ev.tag = "ok") = (c.out = "ok")
         /\ (Ev.tag = "incomplete") = (c.out = "incomplete")
         /\ (Ev.tag = "ctx") = (c.out = "ctx")
         /\ c.out = "ok" => Ev.qfidx = c.qfn
         /\ c.out # "ok" => /\ Ev.nerr = Cardinality(c.errs) /\ Ev.nrep = Cardinality(c.oks)
                            /\ SetOf(Ev.errnodes) = c.errs /\ Len(Ev.errnodes) = Cardinality(c.errs)
    [] c.kind \in {"rpc", "mcast", "ucast"} -> c.out # ""
    [] OTHER -> TRUE

Handled == {"CallStart", "CallSkip", "RegisterRouter", "HandOffWait", "HandOff", "CtxReply", "ClosedReply", "CallEnq",
            "CallIssued", "Dequeue", "SendWait", "SendDone", "BrokenReply", "ErrReply", "HAccept", "SrvRecv", "HStart",
            "HRelease", "HReturn", "HReply", "HFail", "HAbort", "RecvOk", "Route", "DeleteRouter", "CallRecv", "QF",
            "CallConfirm", "CallEnd", "CtxEnd", "StubRet", "ProgEnd", "Prog", "Routers"}

TNormal ==
  /\ live /\ l <= Len(Trace) /\ l' = l + 1 /\ UNCHANGED <<bad, live>>
  /\ \/ Is("CallStart") /\ Start(Ev.msg, Ev.tok, Ev.kind, Ev.size, F("stream", FALSE), F("nosendwait", FALSE))
     \/ Is("CallSkip") /\ Skip(Ev.msg, Ev.node)
     \/ Is("RegisterRouter") /\ RegisterAt(Ev.msg, Ev.node, Ev.streaming) /\ Ev.routers = CountOnP(Ev.node)
     \/ Is("HandOffWait") /\ Offer(Ev.msg, Ev.node)
     \/ Is("HandOff") /\ HandedOff(Ev.msg, Ev.node)
     \/ (Is("CtxReply") \/ Is("ClosedReply")) /\ OwnReply(Ev.msg, Ev.node)
     \/ Is("CallEnq") /\ Enq(Ev.msg, Ev.node)
     \/ Is("CallIssued") /\ Issued(Ev.msg, Ev.expected)
     \/ Is("Dequeue") /\ Dequeue(Ev.msg, Ev.node)
     \/ Is("SendWait") /\ WriteStart(Ev.msg, Ev.node)
     \/ Is("SendDone") /\ (IF Ev.ok THEN SenderDone(Ev.msg, Ev.node)
                           ELSE (Get0(sending, Ev.node) = Ev.msg /\ UNCHANGED allvars))
     \/ (Is("BrokenReply") \/ Is("ErrReply")) /\ SenderDone(Ev.msg, Ev.node)
     \/ Is("HAccept") /\ Accept(Ev.conn, Ev.node)
     \/ Is("SrvRecv") /\ SrvRecv(Ev.conn, Ev.msg)
     \/ Is("HStart") /\ HasM /\ HandlerStart(Ev.conn, Ev.node, M)
     \/ (Is("HRelease") \/ Is("HReturn")) /\ HasM /\ HandlerRelease(Ev.conn, M)
     \/ (Is("HReply") \/ Is("HFail") \/ Is("HAbort")) /\ HasM /\ HandlerProduce(Ev.node, M)
     \/ Is("RecvOk") /\ ClientRecv(Ev.node, Ev.msg)
     \/ Is("Route") /\ (IF Ev.why = "resp" /\ ~F("err", FALSE) /\ ~F("empty", FALSE)
                        THEN RouteWire(Ev.node, Ev.msg, Ev.found, Ev.streaming)
                        ELSE RouteOther(Ev.node, Ev.msg, Ev.found, Ev.streaming))
     \/ Is("DeleteRouter") /\ RemoveRouter(Ev.node, Ev.msg) /\ Ev.routers = CountOnP(Ev.node)
     \/ Is("CallRecv") /\ Consume(Ev.msg, Ev.node, Ev.err)
          /\ ("nerr" \in DOMAIN Ev => Ev.nerr = Cardinality(call'[Ev.msg].errs) /\ Ev.nrep = Cardinality(call'[Ev.msg].oks))
     \/ Is("QF") /\ HasM /\ InvokeQF(M, Ev.idx, {Ev.set[i][1] : i \in DOMAIN Ev.set}, Ev.q) /\ Ev.overlap = 1 /\ Ev.reqok
     \/ Is("CallConfirm") /\ Confirmed(Ev.msg)
     \/ Is("CallEnd") /\ Finish(Ev.msg, Ev.out)
          /\ ("nerr" \in DOMAIN Ev => Ev.nerr = Cardinality(C(Ev.msg).errs) /\ Ev.nrep = Cardinality(C(Ev.msg).oks))
     \/ Is("CtxEnd") /\ CtxEnds(Ev.tok)
     \/ Is("StubRet") /\ HasM /\ ~Ev.panicked /\ StubOK(M) /\ UNCHANGED allvars
     \/ Is("Routers") /\ Ev.count = CountOn(Ev.node) /\ UNCHANGED allvars
     \/ Trace[l].ev \notin Handled /\ UNCHANGED allvars
     \* leftovers of an earlier section on the same connections (a late reply on its way, a handler that
     \* returns late): events of the server side and of the receiver about a request this section did not issue
     \/ Trace[l].ev \in {"HStart", "HRelease", "HReturn", "HReply", "HFail", "HAbort"} /\ ~HasM /\ UNCHANGED allvars
     \/ Trace[l].ev \in {"SrvRecv", "RecvOk"} /\ Ev.msg \notin used /\ UNCHANGED allvars
     \/ Is("Route") /\ Ev.msg \notin used /\ ~Ev.found /\ UNCHANGED allvars

\* after ProgEnd (and before the first Prog) nothing is judged
TIdle == /\ l <= Len(Trace) /\ ~Is("Prog") /\ ~live
         /\ l' = l + 1 /\ UNCHANGED <<allvars, bad, live>>
TEnd == /\ live /\ Is("ProgEnd") /\ Ev.clean /\ NoResidue
        /\ l' = l + 1 /\ live' = FALSE /\ UNCHANGED <<allvars, bad>>

NextProg(i) ==
  LET S == {j \in i+1..Len(Trace) : Trace[j].ev = "Prog"}
  IN IF S = {} THEN Len(Trace) + 1 ELSE CHOOSE j \in S : \A k \in S : j <= k
TBad == /\ live /\ l <= Len(Trace) /\ ~Is("Prog") /\ ~Is("ProgEnd") /\ ~ENABLED TNormal
        /\ PrintT(<<"BAD", l, Ev.t, Ev.ev>>)
        /\ l' = NextProg(l) /\ bad' = bad + 1 /\ live' = FALSE /\ UNCHANGED allvars
TBadEnd == /\ live /\ Is("ProgEnd") /\ ~(Ev.clean /\ NoResidue)
           /\ PrintT(<<"BAD", l, Ev.t, Ev.ev>>)
           /\ l' = NextProg(l) /\ bad' = bad + 1 /\ live' = FALSE /\ UNCHANGED allvars

TNext == TProg \/ TNormal \/ TEnd \/ TIdle \/ TBad \/ TBadEnd
TSpec == TInit /\ [][TNext]_tvars
Accepted == PrintT(<<"DONE", TLCGet("stats").diameter>>)
TraceInv == live => GorumsInv
=============================================================================
