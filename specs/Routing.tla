------------------------------- MODULE Routing -------------------------------
(***************************************************************************)
(* Reply routing of gorums (C05, C18; transport half of C07), stated over  *)
(* the router table events of each node's channel and the calls' receive   *)
(* events.  k = <<node, msg>> identifies one request of one call on one    *)
(* node (message ids are manager-wide).                                    *)
(*                                                                         *)
(*  Register(k, streaming)  the call registers its reply channel (under    *)
(*                          the router mutex, before the request is queued)*)
(*  Deliver(k)              a response is handed to that channel; a non-   *)
(*                          streaming router is removed with it            *)
(*  Drop(k)                 a response finds no router and is discarded    *)
(*  Delete(k)               a streaming call removes its router at the end *)
(*  Recv(k)                 the call's loop consumes a response filed      *)
(*                          under node k[1]                                *)
(*  End(msg)                the call has ended                             *)
(***************************************************************************)
EXTENDS Integers, Sequences, FiniteSets, TLC

VARIABLES
  routers,    \* set of registered k
  stream,     \* subset of routers that are streaming
  delivered,  \* delivered[k]: responses handed to the call for k
  taken,      \* taken[k]: responses consumed by the call for k
  ended,      \* calls (msg ids) that have ended
  everReg,    \* every k ever registered
  errTaken    \* k for which the call has counted an error

rvars == <<routers, stream, delivered, taken, ended, everReg, errTaken>>

RInit == routers = {} /\ stream = {} /\ delivered = <<>> /\ taken = <<>> /\ ended = {} /\ everReg = {} /\ errTaken = {}

Get(f, k, d) == IF k \in DOMAIN f THEN f[k] ELSE d
CountOn(n) == Cardinality({k \in routers : k[1] = n})

Register(k, str) ==
  /\ k \notin everReg                       \* one registration per request
  /\ k[2] \notin ended
  /\ routers' = routers \cup {k} /\ everReg' = everReg \cup {k}
  /\ stream' = IF str THEN stream \cup {k} ELSE stream
  /\ UNCHANGED <<delivered, taken, ended, errTaken>>

\* C05: a response is delivered only to a registered request of this node; a
\* non-streaming request gets at most one (its router goes with the response)
Deliver(k, str) ==
  /\ k \in routers /\ (k \in stream) = str
  /\ delivered' = (k :> Get(delivered, k, 0) + 1) @@ delivered
  /\ routers' = IF str THEN routers ELSE routers \ {k}
  /\ UNCHANGED <<stream, taken, ended, everReg, errTaken>>

Drop(k) == k \notin routers /\ UNCHANGED rvars

Delete(k) ==
  /\ routers' = routers \ {k}
  /\ UNCHANGED <<stream, delivered, taken, ended, everReg, errTaken>>

\* C05: what a call consumes under node n was delivered by node n's channel
\* for this very call, and nothing is consumed after the call has ended
\* (C07/C11: a failing node is counted once per call, also by streaming calls
\* whose router may be handed several errors by the transport)
Recv(k, isErr) ==
  /\ Get(taken, k, 0) < Get(delivered, k, 0)
  /\ k[2] \notin ended
  /\ isErr => k \notin errTaken
  /\ taken' = (k :> Get(taken, k, 0) + 1) @@ taken
  /\ errTaken' = IF isErr THEN errTaken \cup {k} ELSE errTaken
  /\ UNCHANGED <<routers, stream, delivered, ended, everReg>>

End(m) ==
  /\ ended' = ended \cup {m}
  /\ UNCHANGED <<routers, stream, delivered, taken, everReg, errTaken>>

\* invariants
AtMostOneResponse == \A k \in DOMAIN delivered : k \notin stream => delivered[k] <= 1
TakenWasDelivered == \A k \in DOMAIN taken : taken[k] <= Get(delivered, k, 0)
\* C18: at quiescence (every targeted node answered or failed) nothing is left
NoResidue == routers = {}
=============================================================================
