----------------------------- MODULE CodecTrace -----------------------------
(* Validates what the real codec did with concrete instances of every       *)
(* abstract frame, with arbitrary byte strings, and with encode/decode      *)
(* round trips of every registered method type.                             *)
EXTENDS Codec, Json, IOUtils, Sequences

Trace == ndJsonDeserialize(IOEnv.TRACE)
VARIABLES l, bad
Ev == Trace[l]
TInit == l = 1 /\ bad = 0

OK ==
  CASE Ev.ev = "Frame" -> Ev.out \in Decode(Ev.f)
    [] Ev.ev = "Bytes" -> Ev.out \in {"err", "msg"}                   \* arbitrary bytes: error or message
    [] Ev.ev = "Round" -> Ev.out = "msg" /\ Ev.equal /\ Ev.mdequal /\ Ev.typeok   \* Decode(Encode(m)) = m
    [] OTHER -> FALSE

TNext ==
  /\ l <= Len(Trace) /\ l' = l + 1
  /\ IF OK THEN UNCHANGED bad ELSE PrintT(<<"BAD", l, Ev.c, Ev.ev>>) /\ bad' = bad + 1
TSpec == TInit /\ [][TNext]_<<l, bad>>
Accepted == PrintT(<<"DONE", TLCGet("stats").diameter>>)
=============================================================================
