SPECIFICATION GSpec
CONSTANTS
  MaxN = 2
  MaxItems = 2
  Devs = {}
  Family = "C01"
INVARIANTS Emit
CHECK_DEADLOCK FALSE
