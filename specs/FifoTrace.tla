------------------------------ MODULE FifoTrace ------------------------------
(* Validates recorded program executions against Fifo.tla.                   *)
EXTENDS Fifo, Json, IOUtils

Trace == ndJsonDeserialize(IOEnv.TRACE)
VARIABLES l, bad
tvars == <<fvars, l, bad>>
Ev == Trace[l]
Is(e) == l <= Len(Trace) /\ Trace[l].ev = e
Step == l' = l + 1 /\ UNCHANGED bad

TInit == FInit /\ l = 1 /\ bad = 0

\* a section starts with a Prog line (program) or a Scen line (scripted scenario)
TProg == /\ (Is("Prog") \/ Is("Scen")) /\ Step
         /\ returned' = {} /\ before' = <<>> /\ targets' = <<>> /\ started' = <<>> /\ pairs' = {}
         /\ unrel' = <<>> /\ connNode' = <<>> /\ cancelled' = {}

TNormal ==
  \/ Is("StubCall") /\ Step /\ StubCall(Ev.tok)
  \/ Is("StubRet") /\ Step /\ ~Ev.panicked /\ StubRet(Ev.tok)
  \/ Is("HandOffWait") /\ Step /\ EnqBegin(Ev.node, Ev.tok)
  \/ Is("CtxEnd") /\ Step /\ CtxEnded(Ev.tok)
  \/ Is("HStart") /\ Step /\ HStart(Ev.node, Ev.conn, Ev.tok)
  \/ Is("HRelease") /\ Step /\ HRelease(Ev.conn, Ev.tok)
  \/ Is("HReturn") /\ Step /\ HRelease(Ev.conn, Ev.tok)
  \/ Is("ReleaseAll") /\ Step /\ UNCHANGED fvars
  \/ Is("ProgEnd") /\ Step /\ Ev.clean /\ AllHandled /\ UNCHANGED fvars
  \* "Quiescent" (an invocation that should have returned did not) matches nothing

NextProg(i) ==
  LET S == {j \in i+1..Len(Trace) : Trace[j].ev \in {"Prog", "Scen"}}
  IN IF S = {} THEN Len(Trace) + 1 ELSE CHOOSE j \in S : \A k \in S : j <= k
TBad == /\ l <= Len(Trace) /\ ~Is("Prog") /\ ~Is("Scen") /\ ~ENABLED TNormal
        /\ PrintT(<<"BAD", l, Ev.t, Ev.ev>>)
        /\ l' = NextProg(l) /\ bad' = bad + 1 /\ UNCHANGED fvars

TNext == TProg \/ TNormal \/ TBad
TSpec == TInit /\ [][TNext]_tvars
Accepted == PrintT(<<"DONE", TLCGet("stats").diameter>>)
TraceInv == OneStartPerPair /\ FifoPerConn
=============================================================================
