----------------------------- MODULE CallsTrace -----------------------------
(***************************************************************************)
(* Trace specification for Calls: validates traces recorded from the real  *)
(* library (hooks of build tag verif + harness events), one call at a      *)
(* time, many calls concatenated (each starts with a Scenario line).       *)
(* Every event must be the corresponding enabled action of Calls with the  *)
(* logged arguments, and the logged scalars must equal the spec's values.  *)
(***************************************************************************)
EXTENDS Calls, Json, IOUtils

Trace == ndJsonDeserialize(IOEnv.TRACE)

VARIABLES
  l,        \* next line of the trace
  hq,       \* hq[n]: responses node n's handler produced that were not yet routed
  hstart,   \* nodes whose handler has started, with the serial of that start
  qfSeen,   \* number of QF events seen
  endSeen,  \* CallEnd seen
  hfail,    \* hfail[n]: status code with which node n's handler failed
  downed,   \* nodes whose server the environment has stopped (or never started)
  cnt,      \* number of scenarios started so far
  bad       \* number of scenarios abandoned at an event that no action matches

tvars == <<vars, l, hq, hstart, qfSeen, endSeen, hfail, downed, cnt, bad>>

Ev == Trace[l]
Is(e) == l <= Len(Trace) /\ Trace[l].ev = e
\* an event that names a node is about a node of this call's configuration
\* (anything else - e.g. a reply of another call's node - matches no action)
IsN(e) == Is(e) /\ Trace[l].node \in 1..sc.n
Step == l' = l + 1

\* reply set logged by the harness QF: sequence of <<key, repNode, repCall, serial, val>>
SetOfLog(s) == [n \in {s[i][1] : i \in DOMAIN s} |-> (LET i == CHOOSE j \in DOMAIN s : s[j][1] = n IN s[i][5])]

ResetTo(s) ==
  /\ sc' = s
  /\ pc' = "init" /\ nxt' = 1 /\ sent' = {} /\ expected' = s.n
  /\ wire' = [n \in 1..s.n |-> <<>>] /\ nprod' = [n \in 1..s.n |-> 0]
  /\ fin' = [n \in 1..s.n |-> FALSE]
  /\ replies' = <<>> /\ errs' = <<>> /\ ctx' = "live"
  /\ out' = [tag |-> "none"] /\ qfLog' = <<>>
  /\ corr' = [level |-> LevelNotSet, val |-> NoVal, err |-> "none", done |-> FALSE]
  /\ clevel' = LevelNotSet /\ confirmed' = {}
  /\ hq' = [n \in 1..s.n |-> <<>>] /\ hstart' = <<>> /\ qfSeen' = 0 /\ endSeen' = FALSE /\ hfail' = <<>> /\ downed' = {}

TInit ==
  /\ l = 1 /\ cnt = 0 /\ bad = 0
  /\ InitWith([method |-> "none", kind |-> "none", custom |-> FALSE, n |-> 0, pn |-> <<>>, qf |-> "thr",
               k |-> 1, lv |-> "none", nsw |-> FALSE, vals |-> 0, fk |-> ""])
  /\ hq = <<>> /\ hstart = <<>> /\ qfSeen = 0 /\ endSeen = FALSE /\ hfail = <<>> /\ downed = {}

\* a scenario is complete when its call returned and everything logged was consumed
TScenario ==
  /\ Is("Scenario") /\ Step
  /\ ResetTo(Ev.sc)
  /\ cnt' = cnt + 1 /\ UNCHANGED bad

Same == UNCHANGED <<hq, hstart, qfSeen, endSeen, hfail, downed, cnt, bad>>

TCallStart ==
  /\ Is("CallStart") /\ Step /\ Same
  /\ Ev.kind = (IF sc.kind = "corrstream" THEN "corr" ELSE sc.kind) /\ Ev.size = sc.n
  /\ (sc.kind \in CorrKinds) => (Ev.stream = Stream)
  /\ (sc.kind \in OneWayKinds) => (Ev.nosendwait = sc.nsw)
  /\ Start

TCallSkip == IsN("CallSkip") /\ Step /\ Same /\ nxt = Ev.node /\ SkipNode

\* the request is about to enter the node's send queue (start of enqueue)
TEnqBegin == IsN("HandOffWait") /\ Step /\ Same /\ nxt = Ev.node /\ EnqueueNode

TCallEnq == IsN("CallEnq") /\ Step /\ Same /\ Ev.node \in sent /\ UNCHANGED vars

TCallIssued ==
  /\ Is("CallIssued") /\ Step /\ Same
  /\ Ev.expected = (IF OneWay THEN Cardinality(sent) ELSE expected)
  /\ IssueDone

\* C06: the node's handler is started at most once per call, for a targeted
\* node, with exactly the payload the per-node function produced for it
TagFor(n) == IF sc.pn[n] = "own" THEN n ELSE 0
THStart ==
  /\ IsN("HStart") /\ Step /\ UNCHANGED <<vars, hq, qfSeen, endSeen, hfail, downed, cnt, bad>>
  /\ Ev.node \in sent /\ Ev.node \notin DOMAIN hstart
  /\ Ev.tag = TagFor(Ev.node) /\ Ev.method = sc.method
  /\ hstart' = (Ev.node :> Ev.serial) @@ hstart

THReply ==
  /\ IsN("HReply") /\ Step /\ UNCHANGED <<vars, hstart, qfSeen, endSeen, hfail, downed, cnt, bad>>
  /\ Ev.node \in DOMAIN hstart
  /\ hq' = [hq EXCEPT ![Ev.node] = Append(@, [err |-> FALSE, val |-> Ev.val])]

THFail ==
  /\ IsN("HFail") /\ Step /\ UNCHANGED <<vars, hstart, qfSeen, endSeen, downed, cnt, bad>>
  /\ hfail' = (Ev.node :> Ev.code) @@ hfail
  /\ Ev.node \in DOMAIN hstart
  /\ hq' = [hq EXCEPT ![Ev.node] = Append(@, [err |-> TRUE, val |-> 0])]

THEnd ==
  /\ IsN("HEnd") /\ Step /\ Same /\ Ev.node \in DOMAIN hstart
  /\ IF Stream THEN StreamEnd(Ev.node) ELSE UNCHANGED vars

\* a response is handed to the call's reply channel (under the router mutex)
TRoute ==
  /\ IsN("Route") /\ Step /\ UNCHANGED <<hstart, qfSeen, endSeen, hfail, downed, cnt, bad>>
  /\ LET n == Ev.node IN
     IF ~Ev.found
       THEN UNCHANGED <<vars, hq>>                       \* dropped: no router (late or one-way)
       ELSE CASE Ev.why = "down" ->                      \* transport: stream is down
                   NodeRespond(n, TRUE, 0) /\ UNCHANGED hq
              [] Ev.why = "resp" /\ Ev.empty ->          \* send confirmation of a one-way call
                   Confirm(n) /\ UNCHANGED hq
              [] Ev.why = "resp" /\ Ev.err /\ hq[n] # <<>> /\ Head(hq[n]).err ->   \* the handler's error
                   NodeRespond(n, TRUE, 0) /\ hq' = [hq EXCEPT ![n] = Tail(@)]
              [] Ev.why = "resp" /\ Ev.err ->            \* transport: not sent / broken / closed
                   /\ hq[n] = <<>>
                   \* (a send-waiting one-way call takes whatever is routed to it as its confirmation)
                   /\ IF OneWay THEN (IF ~sc.nsw /\ nprod[n] = 0 THEN Confirm(n) ELSE UNCHANGED vars)
                      ELSE NodeRespond(n, TRUE, 0)
                   /\ UNCHANGED hq
              [] OTHER ->                                \* a reply: must be what this node's handler produced
                   /\ hq[n] # <<>> /\ ~Head(hq[n]).err
                   /\ NodeRespond(n, FALSE, Head(hq[n]).val)
                   /\ hq' = [hq EXCEPT ![n] = Tail(@)]

TCallRecv ==
  /\ IsN("CallRecv") /\ Step /\ Same
  /\ LET n == Ev.node IN
     CASE sc.kind = "rpc" -> TakeRpc(n) /\ Head(wire[n]).err = Ev.err
       [] Ev.err -> TakeErr(n) /\ Len(errs') = Ev.nerr /\ Cardinality(DOMAIN replies') = Ev.nrep
       [] OTHER  -> TakeOk(n) /\ Len(errs') = Ev.nerr /\ Cardinality(DOMAIN replies') = Ev.nrep

TCallConfirm ==
  /\ Is("CallConfirm") /\ Step /\ Same
  /\ \E n \in Node : TakeConfirm(n) /\ Cardinality(sent \ confirmed') = Ev.left

\* C01: the quorum function was called for the reply just stored, with the
\* original request, the reply set the spec holds, genuine stamps, one at a time
TQF ==
  /\ Is("QF") /\ Step /\ UNCHANGED <<vars, hq, hstart, endSeen, hfail, downed, cnt, bad>>
  /\ qfSeen' = qfSeen + 1 /\ qfSeen' = Len(qfLog) /\ Ev.idx = qfSeen'
  /\ Ev.reqok /\ Ev.overlap = 1
  /\ LET e == Last(qfLog) IN
     /\ SetOfLog(Ev.set) = e.set
     /\ \A i \in DOMAIN Ev.set :
          LET s == Ev.set[i] IN
            /\ s[2] = s[1] /\ s[3] = Ev.tok       \* filed under the node that produced it, for this call
            /\ s[1] \in DOMAIN hstart /\ s[4] = hstart[s[1]]
     /\ Ev.q = e.q /\ Ev.val = e.val
     /\ IsCorr => Ev.level = e.level

TCorrPublish ==
  /\ Is("CorrPublish") /\ Step /\ Same /\ UNCHANGED vars
  \* (the same loop iteration may go on to complete the call by exhaustion)
  /\ IsCorr /\ (~corr.done \/ corr.err = "incomplete") /\ corr.level = Ev.level /\ qfSeen = Len(qfLog)

TCallLoop ==
  /\ Is("CallLoop") /\ Step /\ Same /\ UNCHANGED vars
  /\ pc = "waiting" /\ qfSeen = Len(qfLog)

TCallEnd ==
  /\ Is("CallEnd") /\ Step /\ UNCHANGED <<hq, hstart, qfSeen, hfail, downed, cnt, bad>>
  /\ ~endSeen /\ endSeen' = TRUE /\ qfSeen = Len(qfLog)
  /\ IF Ev.out = "ctx" THEN TakeCtx ELSE pc = "returned" /\ UNCHANGED vars
  /\ out'.tag = (IF Ev.out = "reply" /\ sc.kind = "rpc" THEN "reply" ELSE Ev.out)
  /\ (TwoWay /\ Ev.out # "ok") => (out'.nerr = Ev.nerr /\ out'.nrep = Ev.nrep)
  /\ (TwoWay /\ Ev.out = "ok") => (Len(errs) = Ev.nerr /\ Cardinality(DOMAIN replies) = Ev.nrep)
  /\ (IsCorr /\ Ev.out # "ok") => (corr'.level = Ev.level)

TCtxEnd == Is("CtxEnd") /\ Step /\ Same /\ CtxEnd(Ev.cause)

\* C07: the environment stops the server of a node
TNodeDown == /\ IsN("NodeDown") /\ Step /\ UNCHANGED <<vars, hq, hstart, qfSeen, endSeen, hfail, cnt, bad>>
             /\ downed' = downed \cup {Ev.node}

\* C07: a stopped node came back, the library re-created the stream, and the node was
\* stopped again: nothing of this concerns a call that has had the node's error already
TNodeFlap == /\ IsN("NodeFlap") /\ Step /\ Ev.node \in downed
             /\ UNCHANGED <<vars, hq, hstart, qfSeen, endSeen, hfail, downed, cnt, bad>>

\* C07: every error of the call names its node; a handler failure carries the
\* handler's status code and message, a connection failure does not (any
\* transport error is accepted: the check demands no particular code)
ErrDetailsOK(d) ==
  \A i \in DOMAIN d :
     LET n == d[i][1] IN
       IF n \in DOMAIN hfail THEN d[i][2] = hfail[n] /\ d[i][3] ELSE ~d[i][3]

\* what the generated stub handed back to the caller
TStubRet ==
  /\ Is("StubRet") /\ Step /\ Same /\ UNCHANGED vars
  /\ ~Ev.panicked
  /\ CASE sc.kind \in {"qc"} ->
            /\ pc = "returned" /\ endSeen /\ Ev.tag = out.tag
            /\ (out.tag = "ok") => (Ev.qfidx = out.qf /\ Ev.qfidx = Len(qfLog) /\ Ev.restok = Ev.tok)
            /\ (out.tag # "ok") =>
                 /\ Ev.resnil
                 /\ Ev.nerr = out.nerr /\ Ev.nrep = out.nrep
                 /\ Ev.errnodes = errs
                 /\ ErrDetailsOK(Ev.errdetails)
                 /\ (out.tag = "ctx") => Ev.cause = out.cause
       [] sc.kind = "rpc" ->
            /\ pc = "returned" /\ endSeen
            \* the node's "reply" may be the caller's own context error (the request
            \* was answered by enqueue or by the sender because the context had
            \* ended): the stub then returns that context error
            /\ \/ Ev.tag = (IF out.tag = "reply" THEN (IF out.err THEN "err" ELSE "ok") ELSE out.tag)
               \/ out.tag = "reply" /\ out.err /\ Ev.tag = "ctx" /\ ctx # "live" /\ Ev.cause = ctx
            /\ (out.tag = "ctx") => Ev.cause = out.cause
       [] OneWay -> pc = "returned" /\ endSeen
       [] OTHER -> TRUE

\* observations of an asynchronous future
TObsAsync ==
  /\ Is("ObsAsync") /\ Step /\ Same /\ UNCHANGED vars
  /\ Ev.done = (pc = "returned")
  /\ Ev.done =>
       /\ endSeen /\ Ev.tag = out.tag /\ Ev.stable
       /\ (out.tag = "ok") => (Ev.qfidx = out.qf /\ Ev.restok = Ev.tok)
       /\ (out.tag # "ok") =>
            /\ Ev.resnil /\ Ev.nerr = out.nerr /\ Ev.nrep = out.nrep /\ Ev.errnodes = errs
            /\ ErrDetailsOK(Ev.errdetails)
            /\ (out.tag = "ctx") => Ev.cause = out.cause

\* observations of a correctable: raw Get, typed Get, Done, watchers
LateClosed(lv) == lv <= corr.level \/ (corr.done /\ "WatchAfterDoneNeverReleased" \notin Devs)
TObsCorr ==
  /\ Is("ObsCorr") /\ Step /\ Same /\ UNCHANGED vars
  /\ Ev.level = corr.level /\ Ev.done = corr.done /\ Ev.errtag = corr.err
  /\ Ev.src = corr.val.src
  /\ (corr.val.src = "qf") => (Ev.idx = corr.val.idx /\ Ev.restok = Ev.tok)
  /\ (corr.val.src = "node") => (Ev.rnode = corr.val.node)
  /\ Ev.typed = TypedGet
  /\ (corr.err # "none") => (Ev.nerr = out.nerr /\ Ev.nrep = out.nrep /\ Ev.errnodes = errs)
  /\ \A i \in DOMAIN Ev.w : Ev.w[i][2] = WatchClosed(Ev.w[i][1])
  /\ \A i \in DOMAIN Ev.lw : Ev.lw[i][2] = LateClosed(Ev.lw[i][1])

\* no event for the quiescence period: the library must have no step left,
\* and a call the spec considers returned must have reported its end
TQuiescent ==
  /\ Is("Quiescent") /\ Step /\ Same /\ UNCHANGED vars
  \* (a confirmation that has not been produced is the per-node sender's business:
  \*  whether the sender is stuck is decided by the transport checks C08/C09)
  /\ ~ENABLED CallerInternal
  /\ (pc = "returned") => endSeen
  /\ (pc = "waiting" /\ ~(OneWay /\ ENABLED Internal)) => QuiescentOK
  \* C07: a call is never left waiting for a node whose connection has failed
  /\ (pc = "waiting") => \A n \in downed \cap sent : nprod[n] > 0

TNormal == TCallStart \/ TCallSkip \/ TEnqBegin \/ TCallEnq \/ TCallIssued
         \/ THStart \/ THReply \/ THFail \/ THEnd \/ TRoute \/ TCallRecv \/ TCallConfirm
         \/ TQF \/ TCorrPublish \/ TCallLoop \/ TCallEnd \/ TCtxEnd \/ TNodeDown \/ TNodeFlap \/ TStubRet
         \/ TObsAsync \/ TObsCorr \/ TQuiescent

\* An event that no action matches: the scenario is reported (the checker reads
\* the BAD line and builds a replay file from it) and abandoned, and validation
\* continues with the next scenario so that the rest of the file is checked too.
NextScenario(i) ==
  LET S == {j \in i+1..Len(Trace) : Trace[j].ev = "Scenario"}
  IN IF S = {} THEN Len(Trace) + 1 ELSE CHOOSE j \in S : \A k \in S : j <= k
TBad ==
  /\ l <= Len(Trace) /\ ~Is("Scenario") /\ ~ENABLED TNormal
  /\ PrintT(<<"BAD", l, Trace[l].t, Trace[l].ev>>)
  /\ l' = NextScenario(l) /\ bad' = bad + 1
  /\ UNCHANGED <<vars, hq, hstart, qfSeen, endSeen, hfail, downed, cnt>>

TNext == TScenario \/ TNormal \/ TBad
TSpec == TInit /\ [][TNext]_tvars

Accepted == PrintT(<<"DONE", TLCGet("stats").diameter>>)

\* the action properties of Calls, on every step of a trace that is not the
\* switch to the next scenario
NotReset == ~Is("Scenario") /\ bad' = bad
TLevelMonotone == [][NotReset => corr'.level >= corr.level]_tvars
TDoneFinal     == [][NotReset => (corr.done => corr' = corr)]_tvars
TOutFinal      == [][NotReset => (out.tag # "none" => out' = out)]_tvars
TQFStepwise    == [][NotReset => (qfLog' # qfLog => Len(qfLog') = Len(qfLog) + 1 /\ SubSeq(qfLog', 1, Len(qfLog)) = qfLog)]_tvars

\* the invariants of Calls, evaluated in every state of every trace
TraceInv ==
  /\ OutIsQFVerdict /\ QFNeverAfterQuorum /\ QFSetsGrow /\ QFNoFailedNode /\ QFOnlyTargets /\ QFCurrent
  /\ OutcomeExact /\ ReturnedOnlyWithOutcome
  /\ ErrorsNameNodesOnce /\ FailedNotReplied /\ OneWayNoHandlerWait
  /\ CorrPublishedAtOnce /\ CorrDoneIffReturned /\ CorrValueFromQF
=============================================================================
