-------------------------------- MODULE Sort --------------------------------
(***************************************************************************)
(* Node sorters (C19): OrderedBy(k1, ..., kn).Sort with the provided keys  *)
(* ID, Port and LastNodeError.  A node of the universe is a record         *)
(* [id, port, err]; the module defines what each key means, what "sorted   *)
(* lexicographically by the keys" means, and strict weak orderings.        *)
(***************************************************************************)
EXTENDS Integers, Sequences, FiniteSets

\* the node universe: ids with repeats, two ports whose decimal strings order the
\* other way round than the numbers (9001 < 10000 but "10000" < "9001"), with and
\* without a last error
U == << [id |-> 1, port |-> 9001, err |-> FALSE],
        [id |-> 1, port |-> 10000, err |-> TRUE],
        [id |-> 2, port |-> 9001, err |-> FALSE],
        [id |-> 2, port |-> 10000, err |-> TRUE],
        [id |-> 3, port |-> 9001, err |-> TRUE],
        [id |-> 3, port |-> 10000, err |-> FALSE] >>
UI   == DOMAIN U
Keys == {"ID", "Port", "LastNodeError"}

\* the meaning of the provided keys (a, b index U)
KeyLess(k, a, b) ==
  CASE k = "ID"            -> U[a].id < U[b].id
    [] k = "Port"          -> U[a].port < U[b].port
    [] k = "LastNodeError" -> ~U[a].err /\ U[b].err     \* no error sorts before error

\* a strict weak ordering over the universe
StrictWeak(R(_, _)) ==
  /\ \A a \in UI : ~R(a, a)
  /\ \A a, b \in UI : R(a, b) => ~R(b, a)
  /\ \A a, b, c \in UI : R(a, b) /\ R(b, c) => R(a, c)
  /\ \A a, b, c \in UI : (~R(a, b) /\ ~R(b, a) /\ ~R(b, c) /\ ~R(c, b)) => (~R(a, c) /\ ~R(c, a))

\* lexicographic order by a sequence of keys
LexLess(ks, a, b) ==
  \E i \in DOMAIN ks :
     /\ KeyLess(ks[i], a, b)
     /\ \A j \in 1..i-1 : ~KeyLess(ks[j], a, b) /\ ~KeyLess(ks[j], b, a)

IsPerm(s, t) ==
  /\ Len(s) = Len(t)
  /\ \A x \in UI : Cardinality({i \in DOMAIN s : s[i] = x}) = Cardinality({i \in DOMAIN t : t[i] = x})

\* out is the input sorted by the keys: a permutation in which no element is
\* lexicographically smaller than an earlier one
Sorted(ks, in, out) ==
  /\ IsPerm(in, out)
  /\ \A i, j \in DOMAIN out : i < j => ~LexLess(ks, out[j], out[i])
=============================================================================
