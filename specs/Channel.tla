------------------------------ MODULE Channel ------------------------------
(***************************************************************************)
(* One node's transport: the client-side channel of gorums (channel.go:    *)
(* callers handing requests to the send queue, the sender goroutine, the   *)
(* receiver goroutine, cancellation watchers, the reconnect logic with the *)
(* RW lock around the current stream and the two lock-free flags, the      *)
(* router table), a FIFO network per stream epoch, the server's receive    *)
(* loop with the hand-over mutex (server.go), and the environment          *)
(* (contexts ending, crash / restart of the server, back-off timers,       *)
(* Manager.Close).                                                         *)
(*                                                                         *)
(* One action per critical section / blocking point of the code.  The      *)
(* deviations of the code from the intended design are guarded by Devs:    *)
(*   StaleBrokenRead        sender decides to reconnect on a flag value    *)
(*                          read earlier and then blocks in Lock()         *)
(*                          (repair: TryLock, give up if busy)             *)
(*   RcvSleepsThroughReconnect  nobody wakes the receiver's back-off sleep *)
(*                          when the sender re-creates the stream          *)
(*   EnqIgnoresCtx          the hand-off to the send queue ignores the     *)
(*                          request's context                              *)
(*   OneWayConfirmIgnoresCtx  send-waiting one-way calls ignore it too     *)
(*   StreamRouteBlocksUnderRM  delivery into a full streaming reply        *)
(*                          channel blocks while holding the router mutex, *)
(*                          and the finished call needs that mutex         *)
(*   BufferedSendQStrands   with a send buffer a request can enter (or     *)
(*                          stay in) the queue after the sender exited     *)
(*   RcvExitSkipsCancelPending  a receiver that exits because the node was *)
(*                          closed leaves pending requests unanswered      *)
(*   SenderReconnectStrandsPending  the sender re-creates the stream while *)
(*                          the receiver is between two reads: nobody      *)
(*                          fails the requests pending on the old stream   *)
(*   StreamDiesUnseen       a stream created by the sender is replaced     *)
(*                          before the receiver (which had seen the         *)
(*                          previous one fail) ever reads from it: nobody   *)
(*                          fails the requests pending on it                *)
(*   FailedReconnectNilStream  a failed attempt to re-create the stream    *)
(*                          stores the nil result as the current stream; a *)
(*                          receiver between two reads then reads from nil *)
(*                          and the process dies                           *)
(*   EnqueueBlocksOnOwnReplyChannel  a caller that answers its own request *)
(*                          (node closed / context ended during hand-off)  *)
(*                          sends into its own reply channel under the     *)
(*                          router mutex; a streaming call's channel may   *)
(*                          be full of other nodes' replies and is read by *)
(*                          nobody before all requests are handed off      *)
(***************************************************************************)
EXTENDS Integers, Sequences, FiniteSets, TLC

CONSTANTS
  Reqs,       \* request ids, e.g. 1..2 (issued by independent callers)
  Kind,       \* Kind[r] \in {"two", "sw", "nsw", "stream"}
  SendBuf,    \* capacity of the send queue (0 = rendezvous)
  MaxEpoch,   \* bound on stream (re)creations
  MaxCrash,   \* bound on server crashes
  CanCancel,  \* requests whose context may end
  WithClose,  \* whether Manager.Close may happen
  ChanCap,    \* capacity of a streaming call's reply channel
  MaxItems,   \* replies a streaming handler sends
  Window,     \* flow-control window: requests in flight per stream
  Foreign,    \* whether other nodes of a streaming call's configuration fill its reply channel
  Abandons,   \* whether a call may end (quorum from other nodes) while its request to this node is pending
  Devs

VARIABLES
  cpc, ctx, resp, taken,                    \* callers and their reply channels
  sendQ,
  spc, cur, sndErr, sretries, sndEpoch, raced,  \* sender (raced: the stream was cancelled while the write was in progress)
  rpc, rcvEpoch, rmsg, rcvLast, rcvFailed,  \* receiver (rcvLast: the stream it reads / last read from; rcvFailed: it has
                                            \* seen that stream fail and failed the requests pending on it)
  watcher,
  broken, established,                      \* the two lock-free flags
  wake,                                     \* the one-slot wake-up channel of the reconnect back-off ("reconnected")
  lkW, lkR, lkWait,                         \* RW lock around the stream: writer, readers, waiting writers
  epoch, alive,                             \* current stream number; state of every stream
  routers, rmBlocked,                       \* router table; receiver blocked in delivery holding the router mutex
  c2s, s2c,                                 \* network, per epoch
  up, crashes, mutHeld, handlers, items,    \* server
  closed,
  enqOrder, started                         \* history: hand-off order, handler start order per epoch

vars == <<cpc, ctx, resp, taken, sendQ, spc, cur, sndErr, sretries, sndEpoch, raced, rpc, rcvEpoch, rmsg, rcvLast, rcvFailed, watcher,
          broken, wake, established, lkW, lkR, lkWait, epoch, alive, routers, rmBlocked, c2s, s2c, up, crashes,
          mutHeld, handlers, items, closed, enqOrder, started>>

Epochs == 1..MaxEpoch
HasRouter(r) == Kind[r] \in {"two", "sw", "stream"}
Streaming(r) == Kind[r] = "stream"

Init ==
  /\ cpc = [r \in Reqs |-> "idle"] /\ ctx = [r \in Reqs |-> "live"]
  /\ resp = [r \in Reqs |-> <<>>] /\ taken = [r \in Reqs |-> 0]
  /\ sendQ = <<>>
  /\ spc = "idle" /\ cur = 0 /\ sndErr = FALSE /\ sretries = 0 /\ sndEpoch = 0 /\ raced = FALSE
  /\ rpc = "none" /\ rcvEpoch = 0 /\ rmsg = 0 /\ rcvLast = 0 /\ rcvFailed = FALSE
  /\ watcher = [r \in Reqs |-> "off"]
  /\ broken = FALSE /\ established = FALSE /\ wake = FALSE
  /\ lkW = "none" /\ lkR = {} /\ lkWait = {}
  /\ epoch = 0 /\ alive = [e \in Epochs |-> "unborn"]
  /\ routers = {} /\ rmBlocked = FALSE
  /\ c2s = [e \in Epochs |-> <<>>] /\ s2c = [e \in Epochs |-> <<>>]
  /\ up = TRUE /\ crashes = 0 /\ mutHeld = [e \in Epochs |-> 0] /\ handlers = {} /\ items = [r \in Reqs |-> 0]
  /\ closed = FALSE
  /\ enqOrder = <<>> /\ started = [e \in Epochs |-> <<>>]

(***************************************************************************)
(* Router table (under the router mutex; nothing else may take the mutex   *)
(* while the receiver is blocked in a delivery)                            *)
(***************************************************************************)
\* A caller blocked in a delivery to its own reply channel holds the router mutex
\* (deviation EnqueueBlocksOnOwnReplyChannel); so does a receiver blocked in a delivery.
CallerHoldsRM == \E q \in Reqs : cpc[q] = "selfblocked"
RMFree == ~rmBlocked /\ ~CallerHoldsRM
\* Deliver response v for request r: effect on resp and routers.
\* A full streaming channel blocks the deliverer.
\* (CapOf and Multi are operators so that the trace specification can give them per request: a
\* streaming call over several nodes has a reply channel of that many slots, shared by those nodes,
\* and does not end with the first node's error)
CapOf(r) == ChanCap
Multi(r) == FALSE
CanDeliver(r) == r \notin routers \/ ~Streaming(r) \/ Len(resp[r]) - taken[r] < CapOf(r)
Delivered(r, v) ==
  IF r \in routers
    THEN /\ resp' = [resp EXCEPT ![r] = Append(@, v)]
         /\ routers' = IF Streaming(r) THEN routers ELSE routers \ {r}
    ELSE UNCHANGED <<resp, routers>>

(***************************************************************************)
(* Callers                                                                 *)
(***************************************************************************)
Issue(r) ==
  /\ cpc[r] = "idle" /\ RMFree
  /\ routers' = IF HasRouter(r) THEN routers \cup {r} ELSE routers
  /\ cpc' = [cpc EXCEPT ![r] = "handoff"]
  /\ UNCHANGED <<ctx, resp, taken, sendQ, spc, cur, sndErr, sretries, sndEpoch, raced, rpc, rcvEpoch, rmsg, rcvLast, rcvFailed, watcher, broken, wake,
                 established, lkW, lkR, lkWait, epoch, alive, rmBlocked, c2s, s2c, up, crashes, mutHeld, handlers,
                 items, closed, enqOrder, started>>

AfterHandOff(r) == IF Kind[r] = "nsw" THEN "done" ELSE "wait"

\* the request enters the send queue (buffered), or is handed to the idle sender (rendezvous)
HandOffQueue(r) ==
  /\ cpc[r] = "handoff" /\ Len(sendQ) < SendBuf
  /\ sendQ' = Append(sendQ, r)
  /\ cpc' = [cpc EXCEPT ![r] = AfterHandOff(r)]
  /\ enqOrder' = Append(enqOrder, r)
  /\ UNCHANGED <<ctx, resp, taken, spc, cur, sndErr, sretries, sndEpoch, raced, rpc, rcvEpoch, rmsg, rcvLast, rcvFailed, watcher, broken, wake,
                 established, lkW, lkR, lkWait, epoch, alive, routers, rmBlocked, c2s, s2c, up, crashes, mutHeld,
                 handlers, items, closed, started>>

\* (HandOffThrough: the request passes through an empty queue to the idle sender; with a
\* rendezvous queue this is the only way)
HandOffThrough(r) ==
  /\ cpc[r] = "handoff" /\ spc = "idle" /\ sendQ = <<>>
  /\ spc' = "check" /\ cur' = r /\ sndErr' = FALSE
  /\ cpc' = [cpc EXCEPT ![r] = AfterHandOff(r)]
  /\ enqOrder' = Append(enqOrder, r)
  /\ UNCHANGED <<ctx, resp, taken, sendQ, sretries, sndEpoch, raced, rpc, rcvEpoch, rmsg, rcvLast, rcvFailed, watcher, broken, wake, established, lkW,
                 lkR, lkWait, epoch, alive, routers, rmBlocked, c2s, s2c, up, crashes, mutHeld, handlers, items,
                 closed, started>>
HandOffDirect(r) == SendBuf = 0 /\ HandOffThrough(r)

\* The caller answers its own request.  Deviation EnqueueBlocksOnOwnReplyChannel: a
\* blocking send under the router mutex; when the (streaming) channel is full the
\* caller - the only reader of that channel - blocks for good holding the mutex.
\* Repaired design: the caller's own error is dropped when the channel is full
\* (the call ends by its context / sees the closed node itself).
OwnAnswer(r) ==
  IF CanDeliver(r)
    THEN Delivered(r, "err") /\ cpc' = [cpc EXCEPT ![r] = AfterHandOff(r)]
    ELSE /\ UNCHANGED <<resp, routers>>
         /\ cpc' = [cpc EXCEPT ![r] = IF "EnqueueBlocksOnOwnReplyChannel" \in Devs THEN "selfblocked"
                                       ELSE AfterHandOff(r)]

\* the node is closed: answer "channel closed" instead of queueing
ClosedReply(r) ==
  /\ cpc[r] = "handoff" /\ closed /\ RMFree
  /\ OwnAnswer(r)
  /\ UNCHANGED <<ctx, taken, sendQ, spc, cur, sndErr, sretries, sndEpoch, raced, rpc, rcvEpoch, rmsg, rcvLast, rcvFailed, watcher, broken, wake,
                 established, lkW, lkR, lkWait, epoch, alive, rmBlocked, c2s, s2c, up, crashes, mutHeld, handlers,
                 items, closed, enqOrder, started>>

\* repaired design: the hand-off also watches the request's context
CtxReply(r) ==
  /\ cpc[r] = "handoff" /\ ctx[r] = "ended" /\ "EnqIgnoresCtx" \notin Devs /\ RMFree
  /\ OwnAnswer(r)
  /\ UNCHANGED <<ctx, taken, sendQ, spc, cur, sndErr, sretries, sndEpoch, raced, rpc, rcvEpoch, rmsg, rcvLast, rcvFailed, watcher, broken, wake,
                 established, lkW, lkR, lkWait, epoch, alive, rmBlocked, c2s, s2c, up, crashes, mutHeld, handlers,
                 items, closed, enqOrder, started>>

\* Another node of the streaming call's configuration has answered: its reply sits
\* in the call's (shared, bounded) reply channel.  ENVIRONMENT of this node.
ForeignItemV(r, v) ==
  /\ Streaming(r)
  /\ Len(resp[r]) - taken[r] < CapOf(r) /\ Len(resp[r]) < MaxItems + CapOf(r)
  /\ resp' = [resp EXCEPT ![r] = Append(@, v)]
  /\ UNCHANGED <<cpc, ctx, taken, sendQ, spc, cur, sndErr, sretries, sndEpoch, raced, rpc, rcvEpoch, rmsg, rcvLast, rcvFailed, watcher, broken, wake,
                 established, lkW, lkR, lkWait, epoch, alive, routers, rmBlocked, c2s, s2c, up, crashes, mutHeld,
                 handlers, items, closed, enqOrder, started>>
ForeignItem(r) == Foreign /\ cpc[r] \in {"handoff", "wait"} /\ ForeignItemV(r, "ok")

\* The manager connects when it is created: dial, first stream, receiver started -
\* before any request exists (node.connect).  When the server is down then, the
\* sender dials with the first request instead (Dial).
EagerConnect ==
  /\ ~established /\ epoch = 0 /\ spc = "idle" /\ \A r \in Reqs : cpc[r] = "idle"
  /\ up /\ ~closed /\ epoch < MaxEpoch
  /\ epoch' = 1 /\ alive' = [alive EXCEPT ![1] = "open"]
  /\ established' = TRUE /\ rpc' = "rlockwait" /\ rcvLast' = 1 /\ rcvFailed' = FALSE
  /\ UNCHANGED <<cpc, ctx, resp, taken, sendQ, spc, cur, sndErr, sretries, sndEpoch, raced, rcvEpoch, rmsg, watcher, broken, wake,
                 lkW, lkR, lkWait, routers, rmBlocked, c2s, s2c, up, crashes, mutHeld, handlers, items, closed, enqOrder,
                 started>>

\* the call consumes a response
Take(r) ==
  /\ cpc[r] = "wait" /\ taken[r] < Len(resp[r])
  /\ taken' = [taken EXCEPT ![r] = @ + 1]
  /\ LET v == resp[r][taken[r] + 1] IN
       cpc' = [cpc EXCEPT ![r] = IF Streaming(r) /\ (v = "ok" \/ Multi(r)) /\ taken'[r] < MaxItems THEN "wait"
                                  ELSE IF Streaming(r) THEN "delete" ELSE "done"]
  /\ UNCHANGED <<ctx, resp, sendQ, spc, cur, sndErr, sretries, sndEpoch, raced, rpc, rcvEpoch, rmsg, rcvLast, rcvFailed, watcher, broken, wake,
                 established, lkW, lkR, lkWait, epoch, alive, routers, rmBlocked, c2s, s2c, up, crashes, mutHeld,
                 handlers, items, closed, enqOrder, started>>

\* a streaming call may complete before the stream is exhausted (quorum function done)
StreamEarlyDone(r) ==
  /\ Streaming(r) /\ cpc[r] = "wait" /\ taken[r] >= 1
  /\ cpc' = [cpc EXCEPT ![r] = "delete"]
  /\ UNCHANGED <<ctx, resp, taken, sendQ, spc, cur, sndErr, sretries, sndEpoch, raced, rpc, rcvEpoch, rmsg, rcvLast, rcvFailed, watcher, broken, wake,
                 established, lkW, lkR, lkWait, epoch, alive, routers, rmBlocked, c2s, s2c, up, crashes, mutHeld,
                 handlers, items, closed, enqOrder, started>>

\* the call's select picks the context
TakeCtx(r) ==
  /\ cpc[r] = "wait" /\ ctx[r] = "ended"
  /\ (Kind[r] = "sw") => "OneWayConfirmIgnoresCtx" \notin Devs
  /\ cpc' = [cpc EXCEPT ![r] = IF Streaming(r) THEN "delete" ELSE "done"]
  /\ UNCHANGED <<ctx, resp, taken, sendQ, spc, cur, sndErr, sretries, sndEpoch, raced, rpc, rcvEpoch, rmsg, rcvLast, rcvFailed, watcher, broken, wake,
                 established, lkW, lkR, lkWait, epoch, alive, routers, rmBlocked, c2s, s2c, up, crashes, mutHeld,
                 handlers, items, closed, enqOrder, started>>

\* repaired design: while it waits for the router mutex, the finished call keeps
\* taking (and dropping) what is handed to its channel, so that a receiver blocked
\* in a delivery to it goes on
DrainItem(r) ==
  /\ cpc[r] = "delete" /\ taken[r] < Len(resp[r]) /\ "StreamRouteBlocksUnderRM" \notin Devs
  /\ taken' = [taken EXCEPT ![r] = @ + 1]
  /\ UNCHANGED <<cpc, ctx, resp, sendQ, spc, cur, sndErr, sretries, sndEpoch, raced, rpc, rcvEpoch, rmsg, rcvLast, rcvFailed, watcher,
                 broken, wake, established, lkW, lkR, lkWait, epoch, alive, routers, rmBlocked, c2s, s2c, up, crashes, mutHeld,
                 handlers, items, closed, enqOrder, started>>

\* The call has its quorum from other nodes of its configuration: it returns and never
\* looks at this node's reply (the router stays until the reply arrives or the stream breaks).
Abandon(r) ==
  /\ Abandons /\ Kind[r] = "two" /\ cpc[r] = "wait"
  /\ cpc' = [cpc EXCEPT ![r] = "done"]
  /\ UNCHANGED <<ctx, resp, taken, sendQ, spc, cur, sndErr, sretries, sndEpoch, raced, rpc, rcvEpoch, rmsg, rcvLast, rcvFailed, watcher,
                 broken, wake, established, lkW, lkR, lkWait, epoch, alive, routers, rmBlocked, c2s, s2c, up, crashes, mutHeld,
                 handlers, items, closed, enqOrder, started>>

\* a finished streaming call removes its router (deferred deleteRouter).
\* Deviation StreamRouteBlocksUnderRM: it needs the router mutex, which a
\* receiver blocked in a delivery to this very call holds.  Repaired design:
\* the call keeps draining its channel until the router is gone.
DeleteRouter(r) ==
  /\ cpc[r] = "delete" /\ ~CallerHoldsRM
  /\ IF "StreamRouteBlocksUnderRM" \in Devs THEN ~rmBlocked ELSE (~rmBlocked \/ rmsg = r)
  /\ routers' = routers \ {r}
  /\ rmBlocked' = IF rmBlocked /\ rmsg = r THEN FALSE ELSE rmBlocked
  /\ taken' = [taken EXCEPT ![r] = Len(resp[r])]       \* whatever was buffered is dropped
  /\ cpc' = [cpc EXCEPT ![r] = "done"]
  /\ UNCHANGED <<ctx, resp, sendQ, spc, cur, sndErr, sretries, sndEpoch, raced, rpc, rcvEpoch, rmsg, rcvLast, rcvFailed, watcher, broken, wake,
                 established, lkW, lkR, lkWait, epoch, alive, c2s, s2c, up, crashes, mutHeld, handlers, items, closed,
                 enqOrder, started>>

(***************************************************************************)
(* The RW lock (Go semantics: a waiting writer blocks new readers)         *)
(***************************************************************************)
CanRLock == lkW = "none" /\ lkWait = {}
\* (a writer that is already waiting goes first: TryLock fails while another writer waits)
CanWLock(p) == lkW = "none" /\ lkR = {} /\ lkWait \subseteq {p}

(***************************************************************************)
(* Sender                                                                  *)
(***************************************************************************)
SUnch == UNCHANGED <<cpc, ctx, taken, rpc, rcvEpoch, rmsg, rcvLast, rcvFailed, c2s, s2c, up, crashes, mutHeld, handlers, items, closed,
                     enqOrder, started>>

Dequeue ==
  /\ spc = "idle" /\ sendQ # <<>>
  /\ cur' = Head(sendQ) /\ sendQ' = Tail(sendQ) /\ spc' = "check" /\ sndErr' = FALSE
  /\ SUnch /\ UNCHANGED <<resp, sretries, sndEpoch, raced, watcher, broken, wake, established, lkW, lkR, lkWait, epoch, alive,
                          routers, rmBlocked>>

\* the parent context is done: the sender exits (the select may pick this case
\* although requests are still queued)
SenderExit ==
  /\ spc = "idle" /\ closed
  /\ spc' = "exited"
  /\ SUnch /\ UNCHANGED <<sendQ, resp, routers, cur, sndErr, sretries, sndEpoch, raced, watcher, broken, wake, established, lkW, lkR,
                          lkWait, epoch, alive, rmBlocked>>

\* Repaired design (deviation BufferedSendQStrands absent): whoever finds the
\* node closed with requests in the buffer - the exiting sender, or the caller
\* that has just put one there - answers them "channel closed".
Drain ==
  /\ closed /\ sendQ # <<>> /\ "BufferedSendQStrands" \notin Devs /\ RMFree
  /\ spc \in {"idle", "exited"}
  /\ \E i \in DOMAIN sendQ :            \* (several goroutines may drain at once: any order)
       /\ Delivered(sendQ[i], "err")
       /\ sendQ' = SubSeq(sendQ, 1, i - 1) \o SubSeq(sendQ, i + 1, Len(sendQ))
  /\ SUnch /\ UNCHANGED <<spc, cur, sndErr, sretries, sndEpoch, raced, watcher, broken, wake, established, lkW, lkR, lkWait, epoch,
                          alive, rmBlocked>>

\* isConnected(): both flags are read here; what follows acts on these values
CheckConnected ==
  /\ spc = "check"
  /\ spc' = IF established /\ ~broken THEN "brokenchk" ELSE IF ~established THEN "dial" ELSE "readbroken"
  /\ SUnch /\ UNCHANGED <<sendQ, resp, cur, sndErr, sretries, sndEpoch, raced, watcher, broken, wake, established, lkW, lkR, lkWait,
                          epoch, alive, routers, rmBlocked>>

\* never connected: dial and create the first stream (no other goroutine uses the lock yet)
Dial ==
  /\ spc = "dial"
  /\ IF up /\ ~closed /\ epoch < MaxEpoch
       THEN /\ epoch' = epoch + 1 /\ alive' = [alive EXCEPT ![epoch + 1] = "open"]
            /\ broken' = FALSE /\ established' = TRUE /\ rpc' = "rlockwait"
            /\ rcvLast' = epoch + 1 /\ rcvFailed' = FALSE   \* the receiver is started for this stream
            /\ spc' = "brokenchk"
       ELSE /\ broken' = TRUE /\ spc' = "brokenchk" /\ UNCHANGED <<epoch, alive, established, rpc, rcvLast, rcvFailed>>
  /\ UNCHANGED <<cpc, ctx, taken, rcvEpoch, rmsg, c2s, s2c, up, crashes, mutHeld, handlers, items, closed, enqOrder,
                 started, sendQ, resp, cur, sndErr, sretries, sndEpoch, raced, watcher, lkW, lkR, lkWait, routers, rmBlocked, wake>>

\* connect(): "if c.streamBroken.get() { c.reconnect(1) }"
ReadBrokenForReconnect ==
  /\ spc = "readbroken"
  /\ spc' = IF broken THEN "s_lockwait" ELSE "brokenchk"
  /\ sretries' = 0
  /\ SUnch /\ UNCHANGED <<sendQ, resp, cur, sndErr, sndEpoch, raced, watcher, broken, wake, established, lkW, lkR, lkWait, epoch,
                          alive, routers, rmBlocked>>

\* reconnect(1): Lock().  Deviation StaleBrokenRead: a blocking Lock; repaired
\* design: TryLock, and when the lock is busy (the receiver is reading a
\* stream it believes healthy, or is reconnecting itself) go on with the
\* current flag value.
SLockWait ==
  /\ spc = "s_lockwait"
  /\ IF CanWLock("snd")
       THEN lkW' = "snd" /\ lkWait' = lkWait \ {"snd"} /\ spc' = "s_locked"
       ELSE IF "StaleBrokenRead" \in Devs
              THEN lkWait' = lkWait \cup {"snd"} /\ "snd" \notin lkWait /\ UNCHANGED <<lkW, spc>>
              ELSE spc' = "brokenchk" /\ UNCHANGED <<lkW, lkWait>>
  /\ SUnch /\ UNCHANGED <<sendQ, resp, cur, sndErr, sretries, sndEpoch, raced, watcher, broken, wake, established, lkR, epoch, alive,
                          routers, rmBlocked>>

NewStreamOK == up /\ ~closed
\* MaxEpoch only bounds the model: a stream that would be created beyond the bound is
\* not created and the behaviour ends there (such states are excluded from the
\* properties about settled states, see BoundHit)
WithinBound == (broken /\ NewStreamOK) => epoch < MaxEpoch
\* Deviation FailedReconnectNilStream: the failed attempt's nil result replaces the
\* current stream object; repaired design: the old (broken) object is kept.
FailedAttempt == IF "FailedReconnectNilStream" \in Devs /\ epoch > 0 THEN [alive EXCEPT ![epoch] = "nil"] ELSE alive
\* Creating a stream is a local operation: it may succeed although the server is down
\* (the transport has not noticed yet); such a stream is dead from the start.
Stillborn == ~up /\ ~closed /\ epoch < MaxEpoch

\* the new stream: open, or dead from the start
NewStream(state) ==
  /\ epoch' = epoch + 1 /\ alive' = [alive EXCEPT ![epoch + 1] = state]
  /\ broken' = FALSE
  /\ wake' = ("RcvSleepsThroughReconnect" \notin Devs)     \* non-blocking send into the wake-up channel

SLocked ==
  /\ spc = "s_locked" /\ lkW = "snd" /\ WithinBound
  /\ lkW' = "none"
  /\ \/ ~broken /\ spc' = "brokenchk" /\ UNCHANGED <<epoch, alive, broken, wake, sretries>>
     \/ broken /\ NewStreamOK /\ NewStream("open") /\ spc' = "brokenchk" /\ UNCHANGED sretries
     \/ broken /\ Stillborn /\ NewStream("dead") /\ spc' = "brokenchk" /\ UNCHANGED sretries
     \/ /\ broken /\ ~NewStreamOK
        /\ UNCHANGED epoch /\ alive' = FailedAttempt
        /\ IF sretries >= 1 THEN broken' = TRUE /\ spc' = "brokenchk" /\ UNCHANGED <<sretries, wake>>
           ELSE spc' = "s_sleep" /\ UNCHANGED <<broken, wake, sretries>>
  /\ SUnch /\ UNCHANGED <<sendQ, resp, cur, sndErr, sndEpoch, raced, watcher, established, lkR, lkWait, routers, rmBlocked>>

\* the sender's single back-off sleep (its timer does fire: client-internal)
SSleepDone ==
  /\ spc = "s_sleep"
  /\ IF closed THEN spc' = "brokenchk" /\ UNCHANGED sretries
     ELSE spc' = "s_lockwait" /\ sretries' = sretries + 1
  /\ SUnch /\ UNCHANGED <<sendQ, resp, cur, sndErr, sndEpoch, raced, watcher, broken, wake, established, lkW, lkR, lkWait, epoch,
                          alive, routers, rmBlocked>>

\* the sender's sleep listens to the same wake-up channel
SSleepWoken ==
  /\ spc = "s_sleep" /\ wake
  /\ spc' = "s_lockwait" /\ wake' = FALSE
  /\ SUnch /\ UNCHANGED <<sendQ, resp, cur, sndErr, sretries, sndEpoch, raced, watcher, broken, established, lkW, lkR, lkWait, epoch,
                          alive, routers, rmBlocked>>

\* "if c.streamBroken.get() { route stream-down error; continue }": the flag is read
\* lock-free (BrokenCheck); the answer is routed afterwards, under the router mutex
\* (BrokenReply) - the flag may have been cleared in between
BrokenCheck ==
  /\ spc = "brokenchk"
  /\ spc' = IF broken THEN "brokenreply" ELSE "ctxchk"
  /\ SUnch /\ UNCHANGED <<sendQ, resp, routers, cur, sndErr, sretries, sndEpoch, raced, watcher, broken, wake, established, lkW, lkR,
                          lkWait, epoch, alive, rmBlocked>>

BrokenReply ==
  /\ spc = "brokenreply" /\ RMFree
  /\ Delivered(cur, "err") /\ spc' = "idle" /\ cur' = 0
  /\ SUnch /\ UNCHANGED <<sendQ, sndErr, sretries, sndEpoch, raced, watcher, broken, wake, established, lkW, lkR, lkWait, epoch,
                          alive, rmBlocked>>

\* sendMsg: don't send if the context has already ended
CtxCheck ==
  /\ spc = "ctxchk"
  /\ IF ctx[cur] = "ended"
       THEN spc' = "confirm" /\ sndErr' = TRUE
       ELSE spc' = "rlockwait" /\ UNCHANGED sndErr
  /\ SUnch /\ UNCHANGED <<sendQ, resp, cur, sretries, sndEpoch, raced, watcher, broken, wake, established, lkW, lkR, lkWait, epoch,
                          alive, routers, rmBlocked>>

SRLock ==
  /\ spc = "rlockwait" /\ CanRLock
  /\ lkR' = lkR \cup {"snd"} /\ sndEpoch' = epoch /\ raced' = FALSE
  /\ watcher' = [watcher EXCEPT ![cur] = "armed"]
  /\ spc' = "sending"
  /\ SUnch /\ UNCHANGED <<sendQ, resp, cur, sndErr, sretries, broken, wake, established, lkW, lkWait, epoch, alive, routers,
                          rmBlocked>>

\* A write on a stream that is gone may still report success: the peer died and the
\* local transport has not noticed, or the stream was cancelled (by a watcher, by
\* Close) and the cancellation has not been processed yet - which is certain only once
\* the receiver has seen this stream fail.
\* ASSUMPTION (relative speed, not causality): by the time a receiver that found the node
\* closed at the end of its loop has failed the pending requests and returned, the
\* transport has processed the cancellation, so a write started later fails.  Without it
\* TLC exhibits (29 states) a request that is handed to the sender after Close, written
\* "successfully" to the cancelled stream after the receiver has gone, and never answered;
\* this needs a write within the few microseconds gRPC takes to act on the cancelled
\* context and was not reproduced on the real code (DESIGN.md 7).
CancelUnprocessed ==
  /\ alive[sndEpoch] = "cancelled"
  /\ raced \/ (~(rcvFailed /\ rcvLast = sndEpoch) /\ rpc \notin {"exiting", "exited"})
LossySuccess == alive[sndEpoch] = "dead" \/ CancelUnprocessed

\* SendMsg is not atomic: the message is on its way - and may be read by the
\* server - before the call returns (SendWrite, then SendDone)
SendWrite ==
  /\ spc = "sending" /\ (alive[sndEpoch] = "open" \/ CancelUnprocessed)      \* (such a write may even arrive)
  /\ Len(c2s[sndEpoch]) < Window
  /\ c2s' = [c2s EXCEPT ![sndEpoch] = Append(@, cur)]
  /\ spc' = "written"
  /\ UNCHANGED <<cpc, ctx, taken, rpc, rcvEpoch, rmsg, rcvLast, rcvFailed, s2c, up, crashes, mutHeld, handlers, items, closed, enqOrder,
                 started, sendQ, resp, cur, sndErr, sretries, sndEpoch, raced, watcher, broken, wake, established, lkW, lkR, lkWait,
                 epoch, alive, routers, rmBlocked>>

\* SendMsg returns: the message was written, or the stream is not usable
SendDone ==
  /\ \/ /\ spc = "written"
        /\ UNCHANGED <<broken, wake, sndErr>>
     \/ /\ spc = "sending" /\ alive[sndEpoch] \notin {"open", "nil"}
        /\ broken' = TRUE /\ sndErr' = TRUE /\ UNCHANGED wake
     \/ \* the write raced with the cancellation of the stream, or the peer is gone and the
        \* local transport has not noticed yet: SendMsg reports success but the message
        \* never arrives
        /\ spc = "sending" /\ LossySuccess
        /\ UNCHANGED <<broken, wake, sndErr>>
  /\ watcher' = [watcher EXCEPT ![cur] = IF @ = "firing" THEN "firing" ELSE "off"]    \* close(done)
  /\ lkR' = lkR \ {"snd"}
  /\ spc' = "confirm"
  /\ UNCHANGED <<cpc, ctx, taken, rpc, rcvEpoch, rmsg, rcvLast, rcvFailed, c2s, s2c, up, crashes, mutHeld, handlers, items, closed, enqOrder,
                 started, sendQ, resp, cur, sretries, sndEpoch, raced, established, lkW, lkWait, epoch, alive, routers,
                 rmBlocked>>

\* SendMsg on the nil stream object
SendNil ==
  /\ spc = "sending" /\ alive[sndEpoch] = "nil"
  /\ spc' = "panicked"
  /\ SUnch /\ UNCHANGED <<sendQ, resp, cur, sndErr, sretries, sndEpoch, raced, watcher, broken, wake, established, lkW, lkR, lkWait,
                          epoch, alive, routers, rmBlocked>>

\* unblock a send-waiting one-way caller; then report a send error
Confirm ==
  /\ spc = "confirm" /\ RMFree
  /\ IF Kind[cur] = "sw" THEN Delivered(cur, "conf")
     ELSE IF sndErr THEN Delivered(cur, "err") ELSE UNCHANGED <<resp, routers>>
  /\ spc' = "idle" /\ cur' = 0
  /\ SUnch /\ UNCHANGED <<sendQ, sndErr, sretries, sndEpoch, raced, watcher, broken, wake, established, lkW, lkR, lkWait, epoch,
                          alive, rmBlocked>>

\* The cancellation watcher of the request being written.  It wakes when the context
\* ends, finds the write unfinished (WatcherDecides) and then - not atomically - cancels
\* whatever stream is CURRENT at that moment, as a precaution (WatcherFires): the write
\* may have returned, and the stream may even have been re-created, in between.
WatcherDecides(r) ==
  /\ watcher[r] = "armed" /\ ctx[r] = "ended"
  /\ watcher' = [watcher EXCEPT ![r] = "firing"]
  /\ UNCHANGED <<cpc, ctx, resp, taken, sendQ, spc, cur, sndErr, sretries, sndEpoch, raced, rpc, rcvEpoch, rmsg, rcvLast, rcvFailed,
                 broken, wake, established, lkW, lkR, lkWait, epoch, alive, routers, rmBlocked, c2s, s2c, up, crashes, mutHeld,
                 handlers, items, closed, enqOrder, started>>

WatcherFires(r) ==
  /\ watcher[r] = "firing"
  /\ watcher' = [watcher EXCEPT ![r] = "off"]
  /\ alive' = IF epoch > 0 /\ alive[epoch] \in {"open", "dead"} THEN [alive EXCEPT ![epoch] = "cancelled"] ELSE alive
  /\ raced' = (raced \/ (spc \in {"sending", "written"} /\ sndEpoch = epoch /\ alive[epoch] \in {"open", "dead"}))
                                                       \* (cancelling a cancelled stream again races with nothing)
  /\ UNCHANGED <<cpc, ctx, resp, taken, sendQ, spc, cur, sndErr, sretries, sndEpoch, rpc, rcvEpoch, rmsg, rcvLast, rcvFailed, broken, wake,
                 established, lkW, lkR, lkWait, epoch, routers, rmBlocked, c2s, s2c, up, crashes, mutHeld, handlers,
                 items, closed, enqOrder, started>>

(***************************************************************************)
(* Receiver                                                                *)
(***************************************************************************)
RUnch == UNCHANGED <<cpc, ctx, taken, sendQ, spc, cur, sndErr, sretries, sndEpoch, raced, watcher, established, c2s, up,
                     crashes, mutHeld, handlers, items, closed, enqOrder, started>>

\* The receiver finds (under the read lock) a stream other than the one it last read.
\* That is harmless only if it has seen its own stream fail and exactly one stream was
\* created since.  Deviations: SenderReconnectStrandsPending - no such test at all;
\* StreamDiesUnseen - the test compares stream objects and is skipped once the receiver
\* has seen its own stream fail, so a stream created by the sender that is replaced
\* before the receiver ever reads from it goes unnoticed.
ReplacedUnseen ==
  /\ "SenderReconnectStrandsPending" \notin Devs
  /\ rcvLast # 0 /\ rcvLast # epoch
  /\ IF "StreamDiesUnseen" \in Devs THEN ~rcvFailed ELSE ~(rcvFailed /\ epoch = rcvLast + 1)

RRLock ==
  /\ rpc = "rlockwait" /\ CanRLock
  /\ IF ReplacedUnseen
       THEN \* repaired design: a stream was replaced behind the receiver's back: whatever
            \* still waits for a reply on a replaced stream is lost and must be failed
            /\ rpc' = "cancelpend2" /\ rcvLast' = epoch /\ rcvFailed' = FALSE /\ UNCHANGED <<lkR, rcvEpoch>>
       ELSE /\ lkR' = lkR \cup {"rcv"} /\ rcvEpoch' = epoch /\ rpc' = "recv"
            /\ rcvLast' = epoch /\ rcvFailed' = (rcvFailed /\ rcvLast = epoch)
  /\ RUnch /\ UNCHANGED <<resp, rmsg, broken, wake, lkW, lkWait, epoch, alive, routers, rmBlocked, s2c>>

CancelPending2 ==
  /\ rpc = "cancelpend2" /\ RMFree
  /\ \A r \in routers : CanDeliver(r)
  /\ resp' = [r \in Reqs |-> IF r \in routers THEN Append(resp[r], "err") ELSE resp[r]]
  /\ routers' = {r \in routers : Streaming(r)}
  /\ rpc' = "rlockwait"
  /\ RUnch /\ UNCHANGED <<rcvLast, rcvFailed, rcvEpoch, rmsg, broken, wake, lkW, lkR, lkWait, epoch, alive, rmBlocked, s2c>>

\* RecvMsg returns a message (the read lock is released before routing).  Replies
\* that were on their way when the stream died or was cancelled may still be read.
RecvOk ==
  /\ rpc = "recv" /\ alive[rcvEpoch] # "nil" /\ s2c[rcvEpoch] # <<>>
  /\ rmsg' = Head(s2c[rcvEpoch]) /\ s2c' = [s2c EXCEPT ![rcvEpoch] = Tail(@)]
  /\ lkR' = lkR \ {"rcv"} /\ rpc' = "route"
  /\ RUnch /\ UNCHANGED <<rcvLast, rcvFailed, resp, rcvEpoch, broken, wake, lkW, lkWait, epoch, alive, routers, rmBlocked>>

\* route the response.  A full streaming channel blocks the receiver; with
\* deviation StreamRouteBlocksUnderRM it blocks holding the router mutex.
Route ==
  /\ rpc = "route" /\ ~CallerHoldsRM /\ ~(rmBlocked /\ rmsg \in routers /\ ~CanDeliver(rmsg))
  /\ IF CanDeliver(rmsg)
       THEN /\ Delivered(rmsg, "ok") /\ rmBlocked' = FALSE
            /\ rpc' = "loopend"
       ELSE /\ rmBlocked' = TRUE /\ UNCHANGED <<resp, routers, rpc>>
  /\ RUnch /\ UNCHANGED <<rcvLast, rcvFailed, rcvEpoch, rmsg, broken, wake, lkW, lkR, lkWait, epoch, alive, s2c>>

\* RecvMsg on the nil stream object: nil dereference, the process dies
RecvNil ==
  /\ rpc = "recv" /\ alive[rcvEpoch] = "nil"
  /\ rpc' = "panicked"
  /\ RUnch /\ UNCHANGED <<rcvLast, rcvFailed, resp, rcvEpoch, rmsg, broken, wake, lkW, lkR, lkWait, epoch, alive, routers, rmBlocked, s2c>>

\* RecvMsg fails: set the flag, release the read lock
RecvErr ==
  /\ rpc = "recv" /\ alive[rcvEpoch] \notin {"open", "nil"}
  /\ broken' = TRUE /\ lkR' = lkR \ {"rcv"} /\ rpc' = "cancelpend" /\ rcvFailed' = TRUE /\ UNCHANGED <<rcvLast, wake>>
  /\ RUnch /\ UNCHANGED <<resp, rcvEpoch, rmsg, lkW, lkWait, epoch, alive, routers, rmBlocked, s2c>>

\* every pending request is answered "stream is down"
CancelPending ==
  /\ rpc = "cancelpend" /\ RMFree
  /\ \A r \in routers : CanDeliver(r)
  /\ resp' = [r \in Reqs |-> IF r \in routers THEN Append(resp[r], "err") ELSE resp[r]]
  /\ routers' = {r \in routers : Streaming(r)}
  /\ rpc' = "r_lockwait"
  /\ RUnch /\ UNCHANGED <<rcvLast, rcvFailed, rcvEpoch, rmsg, broken, wake, lkW, lkR, lkWait, epoch, alive, rmBlocked, s2c>>

RLockWait ==
  /\ rpc = "r_lockwait"
  /\ IF CanWLock("rcv")
       THEN lkW' = "rcv" /\ lkWait' = lkWait \ {"rcv"} /\ rpc' = "r_locked"
       ELSE lkWait' = lkWait \cup {"rcv"} /\ "rcv" \notin lkWait /\ UNCHANGED <<lkW, rpc>>
  /\ RUnch /\ UNCHANGED <<rcvLast, rcvFailed, resp, rcvEpoch, rmsg, broken, wake, lkR, epoch, alive, routers, rmBlocked, s2c>>

AfterReconnect == "loopend"

RLocked ==
  /\ rpc = "r_locked" /\ lkW = "rcv" /\ WithinBound
  /\ lkW' = "none"
  /\ \/ ~broken /\ rpc' = AfterReconnect /\ UNCHANGED <<epoch, alive, broken, wake>>
     \/ broken /\ NewStreamOK /\ NewStream("open") /\ rpc' = AfterReconnect
     \/ broken /\ Stillborn /\ NewStream("dead") /\ rpc' = AfterReconnect
     \/ broken /\ ~NewStreamOK /\ rpc' = "r_sleep" /\ alive' = FailedAttempt /\ UNCHANGED <<epoch, broken, wake>>
  /\ RUnch /\ UNCHANGED <<rcvLast, rcvFailed, resp, rcvEpoch, rmsg, lkR, lkWait, routers, rmBlocked, s2c>>

\* the receiver's back-off timer: ENVIRONMENT (it fires after up to MaxDelay)
TimerFire ==
  /\ rpc = "r_sleep" /\ ~closed
  /\ rpc' = "r_lockwait"
  /\ RUnch /\ UNCHANGED <<rcvLast, rcvFailed, resp, rcvEpoch, rmsg, broken, wake, lkW, lkR, lkWait, epoch, alive, routers, rmBlocked, s2c>>

\* the sleep also ends when the node is closed, and - repaired design - when
\* somebody else has re-created the stream (wake-up channel)
SleepInterrupted ==
  /\ rpc = "r_sleep"
  /\ \/ closed /\ rpc' = "loopend" /\ UNCHANGED wake
     \/ wake /\ rpc' = "r_lockwait" /\ wake' = FALSE   \* the token is consumed (also possible on a closed node:
                                                      \* the select picks any ready case)
  /\ RUnch /\ UNCHANGED <<rcvLast, rcvFailed, resp, rcvEpoch, rmsg, broken, lkW, lkR, lkWait, epoch, alive, routers, rmBlocked, s2c>>

\* the end of the receiver's loop body (after a routed response, after reconnect): the
\* only place where the receiver looks whether the node has been closed
RcvLoopEnd ==
  /\ rpc = "loopend"
  /\ rpc' = IF closed THEN "exiting" ELSE "rlockwait"
  /\ RUnch /\ UNCHANGED <<rcvLast, rcvFailed, resp, rcvEpoch, rmsg, broken, wake, lkW, lkR, lkWait, epoch, alive, routers, rmBlocked, s2c>>

\* The receiver returns.  Deviation RcvExitSkipsCancelPending: requests that are
\* still waiting for a reply are left without an answer (the code cancels pending
\* requests only after a failed receive).  Repaired design: it answers them
\* "stream is down" on every way out.
ReceiverExit ==
  /\ rpc = "exiting"
  /\ IF "RcvExitSkipsCancelPending" \in Devs
       THEN UNCHANGED <<resp, routers>>
       ELSE /\ RMFree /\ \A r \in routers : CanDeliver(r)
            /\ resp' = [r \in Reqs |-> IF r \in routers THEN Append(resp[r], "err") ELSE resp[r]]
            /\ routers' = {r \in routers : Streaming(r)}
  /\ rpc' = "exited"
  /\ RUnch /\ UNCHANGED <<rcvLast, rcvFailed, rcvEpoch, rmsg, broken, wake, lkW, lkR, lkWait, epoch, alive, rmBlocked, s2c>>

(***************************************************************************)
(* Server: receive loop with the hand-over mutex, handlers                 *)
(***************************************************************************)
VUnch == UNCHANGED <<cpc, ctx, resp, taken, sendQ, spc, cur, sndErr, sretries, sndEpoch, raced, rpc, rcvEpoch, rmsg, rcvLast, rcvFailed, watcher,
                     broken, wake, established, lkW, lkR, lkWait, epoch, routers, rmBlocked, up, crashes, closed, enqOrder>>

\* the loop takes the next request of connection e and starts its handler;
\* it can do so only when the previous handler has released the mutex
SrvStart(e) ==
  /\ up /\ alive[e] \in {"open", "cancelled"} /\ c2s[e] # <<>> /\ mutHeld[e] = 0    \* (the server learns of a cancellation later)
  /\ LET r == Head(c2s[e]) IN
       /\ c2s' = [c2s EXCEPT ![e] = Tail(@)]
       /\ mutHeld' = [mutHeld EXCEPT ![e] = r]
       /\ handlers' = handlers \cup {<<e, r>>}
       /\ started' = [started EXCEPT ![e] = Append(@, r)]
  /\ VUnch /\ UNCHANGED <<alive, s2c, items>>

\* Release: idempotent, from any goroutine
Release(e, r) ==
  /\ <<e, r>> \in handlers /\ mutHeld[e] = r
  /\ mutHeld' = [mutHeld EXCEPT ![e] = 0]
  /\ VUnch /\ UNCHANGED <<alive, c2s, s2c, handlers, items, started>>

\* a streaming handler sends an item
HandlerItem(e, r) ==
  /\ <<e, r>> \in handlers /\ Streaming(r) /\ items[r] < MaxItems - 1 /\ alive[e] = "open"
  /\ s2c' = [s2c EXCEPT ![e] = Append(@, r)]
  /\ items' = [items EXCEPT ![r] = @ + 1]
  /\ VUnch /\ UNCHANGED <<alive, c2s, mutHeld, handlers, started>>

\* the handler returns (implicit release); two-way and streaming handlers reply
\* (in the code: the handler function returns - HandlerLeaves - and the connection's
\* send goroutine writes the reply - ReplyOnWire; the trace specification binds the
\* two halves to their own events)
HandlerLeaves(e, r) ==
  /\ handlers' = handlers \ {<<e, r>>}
  /\ mutHeld' = IF mutHeld[e] = r THEN [mutHeld EXCEPT ![e] = 0] ELSE mutHeld
ReplyOnWire(e, r) ==
  s2c' = IF Kind[r] \in {"two", "stream"} /\ alive[e] = "open" THEN [s2c EXCEPT ![e] = Append(@, r)] ELSE s2c
HandlerReturn(e, r) ==
  /\ <<e, r>> \in handlers
  /\ HandlerLeaves(e, r) /\ ReplyOnWire(e, r)
  /\ VUnch /\ UNCHANGED <<alive, c2s, items, started>>

(***************************************************************************)
(* Environment                                                             *)
(***************************************************************************)
EUnch == UNCHANGED <<cpc, resp, taken, sendQ, spc, cur, sndErr, sretries, sndEpoch, raced, rpc, rcvEpoch, rmsg, rcvLast, rcvFailed, watcher,
                     broken, wake, established, lkW, lkR, lkWait, epoch, routers, rmBlocked, enqOrder, started>>
EUnchNoRaced == UNCHANGED <<cpc, resp, taken, sendQ, spc, cur, sndErr, sretries, sndEpoch, rpc, rcvEpoch, rmsg, rcvLast, rcvFailed, watcher,
                     broken, wake, established, lkW, lkR, lkWait, epoch, routers, rmBlocked, enqOrder, started>>

\* (a context matters as long as the call waits or the transport still holds the request:
\* a no-send-waiting call has returned while its request is still queued or being written)
InTransit(r) == cur = r \/ \E i \in DOMAIN sendQ : sendQ[i] = r
CtxEnd(r) ==
  /\ r \in CanCancel /\ ctx[r] = "live" /\ (cpc[r] # "done" \/ InTransit(r))
  /\ ctx' = [ctx EXCEPT ![r] = "ended"]
  /\ EUnch /\ UNCHANGED <<alive, c2s, s2c, up, crashes, mutHeld, handlers, items, closed>>

Crash ==
  /\ up /\ crashes < MaxCrash
  /\ up' = FALSE /\ crashes' = crashes + 1
  /\ alive' = [e \in Epochs |-> IF alive[e] = "open" THEN "dead" ELSE alive[e]]
  /\ c2s' = [e \in Epochs |-> <<>>]         \* what the server has not read is lost;
  /\ UNCHANGED s2c                           \* what it has sent may still arrive
  /\ handlers' = {} /\ mutHeld' = [e \in Epochs |-> 0]
  /\ EUnch /\ UNCHANGED <<ctx, items, closed>>

Restart ==
  /\ ~up /\ up' = TRUE
  /\ EUnch /\ UNCHANGED <<ctx, alive, c2s, s2c, crashes, mutHeld, handlers, items, closed>>

\* Manager.Close: cancel the node's parent context (every stream context is derived from it)
Close ==
  /\ WithClose /\ ~closed
  /\ closed' = TRUE
  /\ alive' = [e \in Epochs |-> IF alive[e] \in {"open", "dead"} THEN "cancelled" ELSE alive[e]]
  /\ raced' = (raced \/ (spc \in {"sending", "written"} /\ alive[sndEpoch] \in {"open", "dead"}))
  /\ EUnchNoRaced /\ UNCHANGED <<ctx, c2s, s2c, up, crashes, mutHeld, handlers, items>>

(***************************************************************************)
(* Next-state relation                                                     *)
(***************************************************************************)
CallerStep == EagerConnect
              \/ \E r \in Reqs : Issue(r) \/ HandOffQueue(r) \/ HandOffDirect(r) \/ ClosedReply(r) \/ CtxReply(r)
                               \/ Take(r) \/ TakeCtx(r) \/ Abandon(r) \/ DrainItem(r) \/ DeleteRouter(r) \/ StreamEarlyDone(r)
SenderStep == Dequeue \/ SenderExit \/ Drain \/ CheckConnected \/ Dial \/ ReadBrokenForReconnect \/ SLockWait \/ SLocked
              \/ SSleepDone \/ SSleepWoken \/ BrokenCheck \/ BrokenReply \/ CtxCheck \/ SRLock \/ SendWrite \/ SendDone \/ SendNil \/ Confirm
              \/ \E r \in Reqs : WatcherDecides(r) \/ WatcherFires(r)
ReceiverStep == RRLock \/ CancelPending2 \/ RecvOk \/ Route \/ RecvNil \/ RecvErr \/ CancelPending \/ RLockWait \/ RLocked \/ SleepInterrupted
                \/ RcvLoopEnd \/ ReceiverExit
ClientInternal == CallerStep \/ SenderStep \/ ReceiverStep
ServerStep == \E e \in Epochs : SrvStart(e) \/ \E r \in Reqs : Release(e, r) \/ HandlerItem(e, r) \/ HandlerReturn(e, r)
EnvStep == (\E r \in Reqs : CtxEnd(r) \/ ForeignItem(r)) \/ Crash \/ Restart \/ Close \/ TimerFire

Next == ClientInternal \/ ServerStep \/ EnvStep
Spec == Init /\ [][Next]_vars

(***************************************************************************)
(* Properties.  Liveness is stated as safety over SETTLED states: states   *)
(* in which neither the client library nor the (reachable, willing) server *)
(* can take a step.  Whatever is still outstanding there stays outstanding *)
(* unless the environment does something - in particular unless a back-off *)
(* timer fires.                                                            *)
(***************************************************************************)
BoundHit == (spc = "s_locked" \/ rpc = "r_locked") /\ ~WithinBound
Settled == ~ENABLED (ClientInternal \/ ServerStep) /\ ~BoundHit
\* for "whatever the nodes are doing": the server is environment too
SettledClient == ~ENABLED ClientInternal /\ ~BoundHit

\* C03: handlers start in hand-off order (the hand-off happens inside the invocation)
IsSubSeqOrder(s, order) ==
  \A i, j \in DOMAIN s : i < j =>
     \E a, b \in DOMAIN order : a < b /\ order[a] = s[i] /\ order[b] = s[j]
FifoPerConn   == \A e \in Epochs : IsSubSeqOrder(started[e], enqOrder)
NoDoubleStart == \A e1, e2 \in Epochs : \A i \in DOMAIN started[e1], j \in DOMAIN started[e2] :
                    started[e1][i] = started[e2][j] => e1 = e2 /\ i = j
\* C04
OneUnreleased == \A e \in Epochs : Cardinality({h \in handlers : h[1] = e /\ mutHeld[e] = h[2]}) <= 1
\* C05
AtMostOneResponse == \A r \in Reqs : ~Streaming(r) => Len(resp[r]) <= 1
ConfirmOnlyOneWay == \A r \in Reqs : \A i \in DOMAIN resp[r] : resp[r][i] = "conf" => Kind[r] = "sw"
\* C08: once its context has ended a call returns without any help from the environment
CtxPrompt == SettledClient => \A r \in Reqs : ctx[r] = "ended" => cpc[r] \in {"idle", "done"}
\* C09 / C10: with the server up and every handler willing, nothing stays
\* outstanding on a node that is not closed: requests are answered, or failed,
\* without waiting for a back-off timer.  One exemption: a request that was lost
\* with its stream (nothing of it is left on a stream that is still open) while the
\* receiver, still busy re-creating an EARLIER stream, sleeps in its back-off:
\* its failure is reported when the back-off timer fires or the next call
\* re-creates the stream - late, not never (NoPermanentStrand).
Lost(r) == \A e \in Epochs : alive[e] = "open" =>        \* nothing of r is left on a stream that is still open
              /\ \A i \in DOMAIN c2s[e] : c2s[e][i] # r
              /\ \A i \in DOMAIN s2c[e] : s2c[e][i] # r
              /\ <<e, r>> \notin handlers
NoStrandedCall == (Settled /\ up /\ ~closed) =>
                     \A r \in Reqs : cpc[r] \in {"idle", "done"} \/ (rpc = "r_sleep" /\ Lost(r))
\* C09: nothing is stuck for good - also not once every timer has fired
SettledT == Settled /\ ~ENABLED TimerFire
NoPermanentStrand == (SettledT /\ up /\ ~closed) => \A r \in Reqs : cpc[r] \in {"idle", "done"}
\* C09: the lock wedge itself
NoLockWedge == ~(spc = "s_lockwait" /\ "snd" \in lkWait /\ rpc = "recv" /\ alive[rcvEpoch] = "open")
\* C10: no goroutine of the library dies on a nil stream
NoPanic == rpc # "panicked" /\ spc # "panicked"
\* C12: after Close everything terminates and no caller is stranded
CloseTerminates == (SettledClient /\ closed) =>
                     /\ spc = "exited" /\ rpc \in {"none", "exited"}
                     /\ \A r \in Reqs : cpc[r] \in {"idle", "done"} /\ watcher[r] = "off"
\* C18: a settled, healthy node keeps no router
NoResidue == (Settled /\ up /\ ~closed) => \A r \in routers : rpc = "r_sleep" /\ Lost(r)     \* (same exemption)
NoPermanentResidue == (SettledT /\ up /\ ~closed) => routers = {}
=============================================================================
