------------------------------- MODULE Calls -------------------------------
(***************************************************************************)
(* Reply collection of one gorums call, for every call type.               *)
(*                                                                         *)
(* One action per program step of the loops in quorumcall.go, async.go,    *)
(* correctable.go, rpc.go, multicast.go and unicast.go.  A node is, for    *)
(* this module, an environment that produces responses into the call's     *)
(* reply channel (`wire[n]` abstracts network, receiver goroutine and the  *)
(* buffered reply channel: per node FIFO, any interleaving across nodes).  *)
(*                                                                         *)
(* Deviations of the code from the intended design are guarded by the      *)
(* constant Devs (the open known findings); with Devs = {} the module is   *)
(* the intended design that the properties C01, C02, C06, C11 describe.    *)
(***************************************************************************)
EXTENDS Integers, Sequences, FiniteSets, TLC

CONSTANTS MaxItems,   \* responses a streaming node may produce
          Devs        \* enabled deviation names

VARIABLES
  sc,        \* the scenario: kind, configuration size, per-node pattern, QF parameters
  pc,        \* "init", "issuing", "waiting", "returned"
  nxt,       \* next node (1..sc.n) the issuing loop looks at
  sent,      \* nodes the request was enqueued for
  expected,  \* expectedReplies of the code
  wire,      \* wire[n]: responses produced for node n and not yet taken by the loop
  nprod,     \* nprod[n]: number of responses node n has produced
  fin,       \* fin[n]: node n will produce nothing more
  replies,   \* node -> value of its (latest) successful reply
  errs,      \* sequence of nodes that answered with an error
  ctx,       \* "live", "canceled", "deadline"
  out,       \* outcome record, [tag |-> "none"] until the call returns
  qfLog,     \* history of quorum function invocations
  corr,      \* published state of a correctable
  clevel,    \* highest level seen by the correctable loop
  confirmed  \* one-way calls: nodes whose send has been confirmed

vars == <<sc, pc, nxt, sent, expected, wire, nprod, fin, replies, errs, ctx,
          out, qfLog, corr, clevel, confirmed>>

TwoWayKinds == {"qc", "async", "corr", "corrstream"}
CorrKinds   == {"corr", "corrstream"}
OneWayKinds == {"mcast", "ucast"}
LevelNotSet == -1
NoVal       == [src |-> "none"]

N        == sc.n
Node     == 1..N
Stream   == sc.kind = "corrstream"
TwoWay   == sc.kind \in TwoWayKinds
OneWay   == sc.kind \in OneWayKinds
IsCorr   == sc.kind \in CorrKinds

Max(a, b) == IF a >= b THEN a ELSE b
Last(s)   == s[Len(s)]

(***************************************************************************)
(* The quorum-function family.  A reply set is a function node -> value.   *)
(***************************************************************************)
RECURSIVE SumOver(_, _)
SumOver(f, S) == IF S = {} THEN 0
                 ELSE LET x == CHOOSE y \in S : TRUE IN f[x] + SumOver(f, S \ {x})
Count(set, v) == Cardinality({n \in DOMAIN set : set[n] = v})

QFQuorum(set) ==
  CASE sc.qf = "thr" -> Cardinality(DOMAIN set) >= sc.k
    [] sc.qf = "eq"  -> \E a, b \in DOMAIN set : a # b /\ set[a] = set[b]
QFValue(set) ==
  CASE sc.qf = "thr" -> SumOver(set, DOMAIN set)
    [] sc.qf = "eq"  -> IF Count(set, 1) >= 2 THEN 1 ELSE IF Count(set, 2) >= 2 THEN 2 ELSE 0
QFLevel(set) ==
  CASE sc.lv = "count"   -> Cardinality(DOMAIN set)
    [] sc.lv = "nonmono" -> 4 + Count(set, 1) - Count(set, 2)
    [] sc.lv = "jump"    -> 2 * Cardinality(DOMAIN set)
    [] OTHER             -> 0
QFEntry(set) == [set |-> set, q |-> QFQuorum(set), val |-> QFValue(set), level |-> QFLevel(set)]

(***************************************************************************)
(* Initial state for a given scenario s.                                   *)
(***************************************************************************)
InitWith(s) ==
  /\ sc = s
  /\ pc = "init" /\ nxt = 1 /\ sent = {} /\ expected = s.n
  /\ wire = [n \in 1..s.n |-> <<>>] /\ nprod = [n \in 1..s.n |-> 0]
  /\ fin = [n \in 1..s.n |-> FALSE]
  /\ replies = <<>> /\ errs = <<>> /\ ctx = "live"
  /\ out = [tag |-> "none"] /\ qfLog = <<>>
  /\ corr = [level |-> LevelNotSet, val |-> NoVal, err |-> "none", done |-> FALSE]
  /\ clevel = LevelNotSet /\ confirmed = {}

(***************************************************************************)
(* Completion                                                              *)
(***************************************************************************)
Exhausted(es, rs) ==
  IF Stream THEN Len(es) = expected ELSE Len(es) + Cardinality(DOMAIN rs) = expected

LastQFVal(log) == IF log = <<>> THEN NoVal ELSE [src |-> "qf", idx |-> Len(log)]

\* the call ends with an error outcome (Incomplete or the context's error)
FinishErrL(tag, es, rs, log, lvl) ==
  /\ pc' = "returned"
  /\ out' = [tag |-> tag, nerr |-> Len(es), nrep |-> Cardinality(DOMAIN rs), cause |-> ctx]
  /\ IF IsCorr
       THEN corr' = [level |-> lvl, val |-> LastQFVal(log), err |-> tag, done |-> TRUE]
       ELSE UNCHANGED corr
FinishErr(tag, es, rs, log) == FinishErrL(tag, es, rs, log, clevel)

(***************************************************************************)
(* The caller: issuing loop                                                *)
(***************************************************************************)
Start ==
  /\ pc = "init" /\ pc' = "issuing"
  /\ UNCHANGED <<sc, nxt, sent, expected, wire, nprod, fin, replies, errs, ctx, out, qfLog, corr, clevel, confirmed>>

SkipNode ==
  /\ pc = "issuing" /\ nxt <= N /\ sc.pn[nxt] = "skip"
  /\ nxt' = nxt + 1
  /\ expected' = expected - 1
  /\ UNCHANGED <<sc, pc, sent, wire, nprod, fin, replies, errs, ctx, out, qfLog, corr, clevel, confirmed>>

EnqueueNode ==
  /\ pc = "issuing" /\ nxt <= N /\ sc.pn[nxt] # "skip"
  /\ nxt' = nxt + 1
  /\ sent' = sent \cup {nxt}
  /\ UNCHANGED <<sc, pc, expected, wire, nprod, fin, replies, errs, ctx, out, qfLog, corr, clevel, confirmed>>

\* All nodes looked at.  Intended design: a two-way call that targets no node
\* is exhausted at once (C02: "also when no node at all is targeted").
\* Deviation NoTargetsNoExhaustion: the code tests exhaustion only after an
\* event, so such a call waits for its context.
IssueDone ==
  /\ pc = "issuing" /\ nxt > N
  /\ UNCHANGED <<sc, nxt, sent, expected, wire, nprod, fin, replies, errs, ctx, qfLog, clevel, confirmed>>
  /\ CASE OneWay /\ sc.nsw ->
            pc' = "returned" /\ out' = [tag |-> "nowait"] /\ UNCHANGED corr
       [] OneWay /\ ~sc.nsw /\ sent = {} ->
            pc' = "returned" /\ out' = [tag |-> "sent"] /\ UNCHANGED corr
       [] TwoWay /\ expected = 0 /\ "NoTargetsNoExhaustion" \notin Devs ->
            FinishErr("incomplete", errs, replies, qfLog)
       [] OTHER -> pc' = "waiting" /\ UNCHANGED <<out, corr>>

(***************************************************************************)
(* Environment: nodes produce responses, the context ends                  *)
(***************************************************************************)
NodeRespond(n, e, v) ==
  /\ ~OneWay /\ n \in sent /\ ~fin[n]
  /\ nprod[n] < (IF Stream THEN MaxItems ELSE 1)
  /\ wire' = [wire EXCEPT ![n] = Append(@, [err |-> e, val |-> v])]
  /\ nprod' = [nprod EXCEPT ![n] = @ + 1]
  /\ fin' = [fin EXCEPT ![n] = ~Stream \/ e]
  /\ UNCHANGED <<sc, pc, nxt, sent, expected, replies, errs, ctx, out, qfLog, corr, clevel, confirmed>>

StreamEnd(n) ==
  /\ Stream /\ n \in sent /\ ~fin[n]
  /\ fin' = [fin EXCEPT ![n] = TRUE]
  /\ UNCHANGED <<sc, pc, nxt, sent, expected, wire, nprod, replies, errs, ctx, out, qfLog, corr, clevel, confirmed>>

CtxEnd(cause) ==
  /\ ctx = "live" /\ ctx' = cause
  /\ UNCHANGED <<sc, pc, nxt, sent, expected, wire, nprod, fin, replies, errs, out, qfLog, corr, clevel, confirmed>>

\* the per-node sender confirms that a send-waiting one-way message was sent
\* (or could not be sent); library-internal
Confirm(n) ==
  /\ OneWay /\ ~sc.nsw /\ n \in sent /\ nprod[n] = 0
  /\ wire' = [wire EXCEPT ![n] = Append(@, [err |-> FALSE, val |-> 0])]
  /\ nprod' = [nprod EXCEPT ![n] = 1]
  /\ fin' = [fin EXCEPT ![n] = TRUE]
  /\ UNCHANGED <<sc, pc, nxt, sent, expected, replies, errs, ctx, out, qfLog, corr, clevel, confirmed>>

(***************************************************************************)
(* The collection loop                                                     *)
(***************************************************************************)
TakeRpc(n) ==
  /\ sc.kind = "rpc" /\ pc = "waiting" /\ wire[n] # <<>>
  /\ wire' = [wire EXCEPT ![n] = Tail(@)]
  /\ pc' = "returned"
  /\ out' = [tag |-> "reply", err |-> Head(wire[n]).err, val |-> Head(wire[n]).val]
  /\ UNCHANGED <<sc, nxt, sent, expected, nprod, fin, replies, errs, ctx, qfLog, corr, clevel, confirmed>>

TakeConfirm(n) ==
  /\ OneWay /\ pc = "waiting" /\ wire[n] # <<>>
  /\ wire' = [wire EXCEPT ![n] = Tail(@)]
  /\ confirmed' = confirmed \cup {n}
  /\ IF confirmed' = sent
       THEN pc' = "returned" /\ out' = [tag |-> "sent"]
       ELSE UNCHANGED <<pc, out>>
  /\ UNCHANGED <<sc, nxt, sent, expected, nprod, fin, replies, errs, ctx, qfLog, corr, clevel>>

TakeErr(n) ==
  /\ TwoWay /\ pc = "waiting" /\ wire[n] # <<>> /\ Head(wire[n]).err
  /\ wire' = [wire EXCEPT ![n] = Tail(@)]
  /\ errs' = IF n \in {errs[i] : i \in DOMAIN errs} THEN errs ELSE Append(errs, n)   \* a failing node counts once
  /\ IF Exhausted(errs', replies)
       THEN FinishErr("incomplete", errs', replies, qfLog)
       ELSE UNCHANGED <<pc, out, corr>>
  /\ UNCHANGED <<sc, nxt, sent, expected, nprod, fin, replies, ctx, qfLog, clevel, confirmed>>

\* a successful reply: store it, call the quorum function once, act on its verdict
TakeOk(n) ==
  /\ TwoWay /\ pc = "waiting" /\ wire[n] # <<>> /\ ~Head(wire[n]).err
  /\ wire' = [wire EXCEPT ![n] = Tail(@)]
  /\ replies' = (n :> Head(wire[n]).val) @@ replies
  /\ LET e == QFEntry(replies') IN
     /\ qfLog' = Append(qfLog, e)
     /\ IF e.q
          THEN /\ pc' = "returned"
               /\ out' = [tag |-> "ok", qf |-> Len(qfLog')]
               /\ UNCHANGED clevel
               /\ IF IsCorr
                    THEN corr' = [level |-> IF "CorrFinalLevelMayDrop" \in Devs THEN e.level ELSE Max(e.level, clevel),
                                  val   |-> IF "CorrPublishesNodeReply" \in Devs
                                              THEN [src |-> "node", node |-> n]
                                              ELSE [src |-> "qf", idx |-> Len(qfLog')],
                                  err |-> "none", done |-> TRUE]
                    ELSE UNCHANGED corr
          ELSE \* no quorum: a correctable publishes a higher level at once
               /\ IF IsCorr /\ e.level > clevel /\ "CorrNoIntermediatePublish" \notin Devs
                    THEN /\ clevel' = e.level
                         /\ IF Exhausted(errs, replies')
                              THEN FinishErrL("incomplete", errs, replies', qfLog', e.level)
                                   \* the final state keeps the level just reached
                              ELSE /\ corr' = [level |-> e.level, val |-> [src |-> "qf", idx |-> Len(qfLog')],
                                               err |-> "none", done |-> FALSE]
                                   /\ UNCHANGED <<pc, out>>
                    ELSE /\ UNCHANGED clevel
                         /\ IF Exhausted(errs, replies')
                              THEN FinishErr("incomplete", errs, replies', qfLog')
                              ELSE UNCHANGED <<pc, out, corr>>
  /\ UNCHANGED <<sc, nxt, sent, expected, nprod, fin, errs, ctx, confirmed>>

\* the select picks the context.  Deviation OneWayConfirmIgnoresCtx: a
\* send-waiting one-way call waits for its confirmations without watching
\* the context.
TakeCtx ==
  /\ pc = "waiting" /\ ctx # "live"
  /\ OneWay => "OneWayConfirmIgnoresCtx" \notin Devs
  /\ UNCHANGED <<sc, nxt, sent, expected, wire, nprod, fin, replies, errs, ctx, qfLog, clevel, confirmed>>
  /\ CASE sc.kind = "rpc" -> pc' = "returned" /\ out' = [tag |-> "ctx", cause |-> ctx] /\ UNCHANGED corr
       [] OneWay          -> pc' = "returned" /\ out' = [tag |-> "ctx", cause |-> ctx] /\ UNCHANGED corr
       [] OTHER           -> FinishErr("ctx", errs, replies, qfLog)

\* When FinishErr fires in TakeOk after a publish step in the same iteration the
\* code first publishes (set non-final) and then completes; both happen in one
\* loop iteration without any other step of this call in between, so they are
\* one action here.  clevel' is the level just reached in that case.

\* the steps of the call's own goroutine(s) ...
CallerInternal == Start \/ SkipNode \/ EnqueueNode \/ IssueDone \/ TakeCtx
                  \/ \E n \in Node : TakeRpc(n) \/ TakeConfirm(n) \/ TakeErr(n) \/ TakeOk(n)
\* ... and, for send-waiting one-way calls, the per-node senders' confirmations
Internal == CallerInternal \/ \E n \in Node : Confirm(n)

Env(Vals) == \/ \E n \in Node, v \in Vals : NodeRespond(n, FALSE, v)
             \/ \E n \in Node : NodeRespond(n, TRUE, 0) \/ StreamEnd(n)
             \/ \E c \in {"canceled", "deadline"} : CtxEnd(c)

(***************************************************************************)
(* Properties                                                              *)
(***************************************************************************)
ErrNodes == {errs[i] : i \in DOMAIN errs}

\* C01
OutIsQFVerdict ==
  out.tag = "ok" => qfLog # <<>> /\ Last(qfLog).q /\ out.qf = Len(qfLog)
QFNeverAfterQuorum ==
  \A i \in DOMAIN qfLog : i < Len(qfLog) => ~qfLog[i].q
QFSetsGrow ==
  \A i \in DOMAIN qfLog : i > 1 => DOMAIN qfLog[i-1].set \subseteq DOMAIN qfLog[i].set
QFNoFailedNode ==
  ~Stream => \A i \in DOMAIN qfLog : DOMAIN qfLog[i].set \cap ErrNodes = {}
QFOnlyTargets ==
  \A i \in DOMAIN qfLog : DOMAIN qfLog[i].set \subseteq sent
QFCurrent ==
  qfLog # <<>> => Last(qfLog).set = replies

\* C02
NoQuorumEver == \A i \in DOMAIN qfLog : ~qfLog[i].q
OutcomeExact ==
  (pc = "returned" /\ TwoWay) =>
     \/ out.tag = "ok" /\ Last(qfLog).q
     \/ /\ out.tag = "incomplete" /\ NoQuorumEver
        /\ Exhausted(errs, replies)
        /\ ~Stream => out.nerr + out.nrep = expected
        /\ out.nerr = Len(errs) /\ out.nrep = Cardinality(DOMAIN replies)
     \/ out.tag = "ctx" /\ ctx # "live" /\ out.cause = ctx /\ NoQuorumEver
ReturnedOnlyWithOutcome == (pc = "returned") <=> (out.tag # "none")
\* "never keeps waiting once one of these conditions holds": in a state where
\* the library has no step left the call has returned or is legitimately waiting
QuiescentOK ==
  (pc = "waiting" /\ ~ENABLED Internal) =>
     /\ (ctx = "live" \/ (OneWay /\ "OneWayConfirmIgnoresCtx" \in Devs))
     /\ TwoWay => (~Exhausted(errs, replies) \/ ("NoTargetsNoExhaustion" \in Devs /\ expected = 0))

\* C06 / C07 (accounting half)
SkippedNotCounted == pc # "init" /\ pc # "issuing" =>
                       /\ sent = {n \in Node : sc.pn[n] # "skip"}
                       /\ expected = Cardinality(sent)
ErrorsNameNodesOnce == \A i, j \in DOMAIN errs : i # j => errs[i] # errs[j]
FailedNotReplied    == ~Stream => ErrNodes \cap DOMAIN replies = {}
OneWayNoHandlerWait == (OneWay /\ sc.nsw) => pc # "waiting"

\* C11
MaxLevel(log) == LET S == {log[i].level : i \in DOMAIN log} \cup {LevelNotSet}
                 IN CHOOSE m \in S : \A x \in S : m >= x
\* "each time the QF reports a level higher than any before, that level is
\* published at once": in every state the published level is the highest so far
CorrPublishedAtOnce ==
  (IsCorr /\ "CorrNoIntermediatePublish" \notin Devs /\ "CorrFinalLevelMayDrop" \notin Devs) =>
     corr.level = MaxLevel(qfLog)
CorrDoneIffReturned == IsCorr => (corr.done <=> pc = "returned")
CorrValueFromQF ==
  (IsCorr /\ "CorrPublishesNodeReply" \notin Devs) => corr.val.src \in {"none", "qf"}
TypedGet ==
  CASE corr.err # "none" -> "err"
    [] corr.val.src = "none" -> IF "TypedGetPanicsBeforeFirstReply" \in Devs THEN "panic" ELSE "nil"
    [] corr.val.src = "node" /\ sc.custom -> "panic"
    [] OTHER -> "ok"
TypedGetTotal == (IsCorr /\ Devs = {}) => TypedGet # "panic"
WatchClosed(l) == l <= corr.level \/ corr.done

\* action properties
LevelMonotone == [][corr'.level >= corr.level]_vars
DoneFinal     == [][corr.done => corr' = corr]_vars
OutFinal      == [][out.tag # "none" => out' = out]_vars
QFStepwise    == [][qfLog' # qfLog => Len(qfLog') = Len(qfLog) + 1 /\ SubSeq(qfLog', 1, Len(qfLog)) = qfLog]_vars
=============================================================================
