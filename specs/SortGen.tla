------------------------------- MODULE SortGen -------------------------------
(* Enumerates the complete input space of C19 (every key sequence of length  *)
(* 1..MaxKeys, every slice of length 0..MaxLen over the universe) and writes *)
(* each case as one JSON line to GEN_OUT; also checks, at design level, that *)
(* the keys as the specification defines them are strict weak orderings and  *)
(* that every case has a sorted arrangement.                                 *)
EXTENDS Sort, Json, CSV, IOUtils, TLC

CONSTANTS MaxLen, MaxKeys

RECURSIVE SeqsUpTo(_, _)
SeqsUpTo(S, n) == IF n = 0 THEN {<<>>}
                  ELSE LET P == SeqsUpTo(S, n - 1) IN P \cup {Append(s, x) : s \in {q \in P : Len(q) = n - 1}, x \in S}

KeySeqs == SeqsUpTo(Keys, MaxKeys) \ {<<>>}
Slices  == SeqsUpTo(UI, MaxLen)

VARIABLE case
Init == case \in [ks : KeySeqs, in : Slices]
Next == UNCHANGED case
Spec == Init /\ [][Next]_case

ASSUME \A k \in Keys : StrictWeak(LAMBDA a, b : KeyLess(k, a, b))
ASSUME \A ks \in KeySeqs : StrictWeak(LAMBDA a, b : LexLess(ks, a, b))

\* every case can be sorted (the property is satisfiable)
Sortable == \E out \in {p \in [DOMAIN case.in -> UI] : IsPerm(case.in, p)} : Sorted(case.ks, case.in, out)

Emit == CSVWrite("%1$s", <<ToJson(case)>>, IOEnv.GEN_OUT)
=============================================================================
