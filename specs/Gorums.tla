------------------------------- MODULE Gorums -------------------------------
(***************************************************************************)
(* The whole system: one manager, several nodes, many concurrent calls of  *)
(* every type on overlapping configurations.  This module composes         *)
(*                                                                         *)
(*   - the manager's identifier allocation (ids are manager-wide unique),  *)
(*   - the issue loop and reply collection of every call (Calls.tla, here  *)
(*     for many calls at once and without the scenario machinery),         *)
(*   - the request path of every node: offer to the send queue, sender,    *)
(*     write on the stream, reception and handler start on the server's    *)
(*     connection, responses produced by handlers, reception by the        *)
(*     client's receiver (the flow part of Channel.tla, without its locks), *)
(*   - the router tables (Routing.tla, by extension).                      *)
(*                                                                         *)
(* Channel.tla describes ONE node's transport at the grain of its critical *)
(* sections; Calls.tla ONE call.  What neither can state is stated here:   *)
(* facts across nodes and across calls - a message id is never used by two *)
(* calls; what a call consumes under node n is what node n's receiver read *)
(* for that call's id, which is what n's handler produced for it, which    *)
(* was started by the request the call's own sender wrote; the order in    *)
(* which a connection starts handlers is the order of the writes on the    *)
(* node's stream, whatever calls they belong to; a quorum function sees    *)
(* exactly the replies its call has consumed; the outcome of every call is *)
(* determined by what it consumed.                                         *)
(*                                                                         *)
(* Requests are identified by k = <<node, msg>>.                           *)
(***************************************************************************)
EXTENDS Routing

VARIABLES
  used,       \* message ids the manager has handed out
  msgOf,      \* harness call token -> message id
  call,       \* call[m]: the call that owns message id m (record, see Start)
  ctxEnded,   \* tokens whose context has ended
  offered,    \* offered[n]: ids offered to node n's send queue and not yet taken by the sender
  queued,     \* queued[n]: subset of offered[n] whose hand-off has completed (surely in the queue)
  mustPrec,   \* mustPrec[k]: ids that were surely in n's queue when k was offered (must be sent before k)
  sending,    \* sending[n]: the id node n's sender is working on (0: idle)
  written,    \* written[n]: ids whose write on a stream of node n was started, in order
  connNode,   \* server connection -> node
  srvIdx,     \* srvIdx[c]: position in written[connNode[c]] of the last request received on c
  srvRecvd,   \* srvRecvd[c]: requests received on connection c, in order
  nStarted,   \* nStarted[c]: number of handlers started on c (they start in the order of reception)
  unreleased, \* unreleased[c]: the request whose handler holds the connection's hand-over lock (0: none)
  hOf,        \* k for which node k[1]'s handler was started
  produced,   \* produced[k]: responses node k[1]'s handlers produced for id k[2]
  received,   \* received[k]: responses the client's receiver read from node k[1] for id k[2]
  okRouted,   \* okRouted[k]: successful responses from the wire that were delivered to the call's channel
  okTaken     \* okTaken[k]: successful responses the call consumed under node k[1]

gvars == <<used, msgOf, call, ctxEnded, offered, queued, mustPrec, sending, written, connNode, srvIdx, srvRecvd,
           nStarted, unreleased, hOf, produced, received, okRouted, okTaken>>
flow  == <<offered, queued, mustPrec, sending, written>>
srv   == <<connNode, srvIdx, srvRecvd, nStarted, unreleased, hOf, produced>>
allvars == <<rvars, gvars>>

GInit ==
  /\ RInit
  /\ used = {} /\ msgOf = <<>> /\ call = <<>> /\ ctxEnded = {}
  /\ offered = <<>> /\ queued = <<>> /\ mustPrec = <<>> /\ sending = <<>> /\ written = <<>>
  /\ connNode = <<>> /\ srvIdx = <<>> /\ srvRecvd = <<>> /\ nStarted = <<>> /\ unreleased = <<>>
  /\ hOf = {} /\ produced = <<>> /\ received = <<>> /\ okRouted = <<>> /\ okTaken = <<>>

Upd(f, k, v) == (k :> v) @@ f
TwoWay(kind) == kind \in {"qc", "async", "corr", "rpc"}
Collecting(kind) == kind \in {"qc", "async", "corr"}
C(m) == call[m]
Open(m) == m \in used /\ C(m).out = ""
Issuing(m) == Open(m) /\ C(m).expected = -1

(***************************************************************************)
(* The manager and the issue loop                                          *)
(***************************************************************************)
\* C05: a message id belongs to one call for ever
Start(m, tok, kind, size, str, nsw) ==
  /\ m \notin used /\ m > 0 /\ tok \notin DOMAIN msgOf /\ size >= 1
  /\ used' = used \cup {m}
  /\ msgOf' = Upd(msgOf, tok, m)
  /\ call' = Upd(call, m, [tok |-> tok, kind |-> kind, stream |-> str, nsw |-> nsw, size |-> size,
                           expected |-> -1, last |-> 0, reg |-> {}, enq |-> {}, skipped |-> {},
                           oks |-> {}, errs |-> {}, qfn |-> 0, quorum |-> FALSE, owesQF |-> FALSE,
                           confirms |-> 0, out |-> ""])
  /\ UNCHANGED <<rvars, ctxEnded, flow, srv, received, okRouted, okTaken>>

\* C06: nodes are visited in id order, each at most once; a skipped node gets nothing
Skip(m, n) ==
  /\ Issuing(m) /\ n > C(m).last
  /\ call' = Upd(call, m, [C(m) EXCEPT !.last = n, !.skipped = @ \cup {n}])
  /\ UNCHANGED <<rvars, used, msgOf, ctxEnded, flow, srv, received, okRouted, okTaken>>

\* the call registers its reply channel with node n (before the request is offered)
RegisterAt(m, n, str) ==
  /\ Issuing(m) /\ n > C(m).last
  /\ str = C(m).stream
  /\ TwoWay(C(m).kind) \/ ~C(m).nsw
  /\ Register(<<n, m>>, str)
  /\ call' = Upd(call, m, [C(m) EXCEPT !.last = n, !.reg = @ \cup {n}])
  /\ UNCHANGED <<used, msgOf, ctxEnded, flow, srv, received, okRouted, okTaken>>

Get0(f, k) == IF k \in DOMAIN f THEN f[k] ELSE 0
GetS(f, k) == IF k \in DOMAIN f THEN f[k] ELSE {}
GetQ(f, k) == IF k \in DOMAIN f THEN f[k] ELSE <<>>

\* the request is offered to node n's send queue; whatever is surely in the
\* queue at this instant must be sent before it (C03 at the queue)
Offer(m, n) ==
  /\ Issuing(m)
  /\ IF n \in C(m).reg THEN n = C(m).last ELSE (n > C(m).last /\ ~TwoWay(C(m).kind) /\ C(m).nsw)
  /\ m \notin GetS(offered, n)
  /\ offered' = Upd(offered, n, GetS(offered, n) \cup {m})
  /\ mustPrec' = Upd(mustPrec, <<n, m>>, GetS(queued, n))
  /\ call' = Upd(call, m, [C(m) EXCEPT !.last = n])
  /\ UNCHANGED <<rvars, used, msgOf, ctxEnded, queued, sending, written, srv, received, okRouted, okTaken>>

\* the hand-off has completed (the sender may already have taken the request)
HandedOff(m, n) ==
  /\ m \in used
  /\ queued' = IF m \in GetS(offered, n) THEN Upd(queued, n, GetS(queued, n) \cup {m}) ELSE queued
  /\ UNCHANGED <<rvars, used, msgOf, call, ctxEnded, offered, mustPrec, sending, written, srv, received, okRouted, okTaken>>

\* the call answers itself (context ended / node closed) instead of queueing the request
OwnReply(m, n) ==
  /\ m \in GetS(offered, n) /\ m \notin GetS(queued, n)
  /\ offered' = Upd(offered, n, offered[n] \ {m})
  /\ UNCHANGED <<rvars, used, msgOf, call, ctxEnded, queued, mustPrec, sending, written, srv, received, okRouted, okTaken>>

Enq(m, n) ==
  /\ Issuing(m) /\ n = C(m).last /\ n \notin C(m).enq
  /\ call' = Upd(call, m, [C(m) EXCEPT !.enq = @ \cup {n}])
  /\ UNCHANGED <<rvars, used, msgOf, ctxEnded, flow, srv, received, okRouted, okTaken>>

\* C02/C06: the number of replies the call will wait for is the number of nodes it sent to
Issued(m, e) ==
  /\ Issuing(m)
  /\ e = Cardinality(C(m).enq)
  /\ Cardinality(C(m).enq) + Cardinality(C(m).skipped) = C(m).size
  /\ call' = Upd(call, m, [C(m) EXCEPT !.expected = e])
  /\ UNCHANGED <<rvars, used, msgOf, ctxEnded, flow, srv, received, okRouted, okTaken>>

(***************************************************************************)
(* The sender of node n                                                    *)
(***************************************************************************)
\* C03: the sender takes requests in queue order, one at a time
Dequeue(m, n) ==
  /\ Get0(sending, n) = 0
  /\ m \in GetS(offered, n)
  /\ GetS(mustPrec, <<n, m>>) \cap offered[n] = {}
  /\ offered' = Upd(offered, n, offered[n] \ {m})
  /\ queued' = Upd(queued, n, GetS(queued, n) \ {m})
  /\ sending' = Upd(sending, n, m)
  /\ UNCHANGED <<rvars, used, msgOf, call, ctxEnded, mustPrec, written, srv, received, okRouted, okTaken>>

WriteStart(m, n) ==
  /\ Get0(sending, n) = m /\ m # 0
  /\ written' = Upd(written, n, Append(GetQ(written, n), m))
  /\ UNCHANGED <<rvars, used, msgOf, call, ctxEnded, offered, queued, mustPrec, sending, srv, received, okRouted, okTaken>>

\* the sender is done with the request: written, failed, answered "stream down", skipped
SenderDone(m, n) ==
  /\ Get0(sending, n) = m /\ m # 0
  /\ sending' = Upd(sending, n, 0)
  /\ UNCHANGED <<rvars, used, msgOf, call, ctxEnded, offered, queued, mustPrec, written, srv, received, okRouted, okTaken>>

(***************************************************************************)
(* The server side of node n: connection c                                 *)
(***************************************************************************)
Accept(c, n) ==
  /\ c \notin DOMAIN connNode
  /\ connNode' = Upd(connNode, c, n)
  /\ UNCHANGED <<rvars, used, msgOf, call, ctxEnded, flow, srvIdx, srvRecvd, nStarted, unreleased, hOf, produced, received, okRouted, okTaken>>

\* C03/C05: a connection of node n receives only what was written to node n,
\* each write at most once, in the order of the writes
Later(c, m) == {i \in DOMAIN GetQ(written, connNode[c]) : i > Get0(srvIdx, c) /\ written[connNode[c]][i] = m}
SrvRecv(c, m) ==
  /\ c \in DOMAIN connNode
  /\ Later(c, m) # {}
  /\ srvIdx' = Upd(srvIdx, c, CHOOSE i \in Later(c, m) : \A j \in Later(c, m) : i <= j)
  /\ srvRecvd' = Upd(srvRecvd, c, Append(GetQ(srvRecvd, c), m))
  /\ UNCHANGED <<rvars, used, msgOf, call, ctxEnded, flow, connNode, nStarted, unreleased, hOf, produced, received, okRouted, okTaken>>

\* C03: handlers start in the order of reception; C04: only when no earlier
\* handler of the connection still holds the hand-over lock; C05/C06: at most
\* one handler per request, on the node the request was sent to
HandlerStart(c, n, m) ==
  /\ c \in DOMAIN connNode /\ connNode[c] = n
  /\ Get0(nStarted, c) < Len(GetQ(srvRecvd, c))
  /\ srvRecvd[c][Get0(nStarted, c) + 1] = m
  /\ Get0(unreleased, c) = 0
  /\ <<n, m>> \notin hOf
  /\ n \in C(m).enq \cup {C(m).last}
  /\ nStarted' = Upd(nStarted, c, Get0(nStarted, c) + 1)
  /\ unreleased' = Upd(unreleased, c, m)
  /\ hOf' = hOf \cup {<<n, m>>}
  /\ UNCHANGED <<rvars, used, msgOf, call, ctxEnded, flow, connNode, srvIdx, srvRecvd, produced, received, okRouted, okTaken>>

\* release (explicit or by returning) is idempotent
HandlerRelease(c, m) ==
  /\ unreleased' = IF Get0(unreleased, c) = m THEN Upd(unreleased, c, 0) ELSE unreleased
  /\ UNCHANGED <<rvars, used, msgOf, call, ctxEnded, flow, connNode, srvIdx, srvRecvd, nStarted, hOf, produced, received, okRouted, okTaken>>

HandlerProduce(n, m) ==
  /\ <<n, m>> \in hOf
  /\ produced' = Upd(produced, <<n, m>>, Get0(produced, <<n, m>>) + 1)
  /\ UNCHANGED <<rvars, used, msgOf, call, ctxEnded, flow, connNode, srvIdx, srvRecvd, nStarted, unreleased, hOf, received, okRouted, okTaken>>

(***************************************************************************)
(* The receiver of node n and the router table                             *)
(***************************************************************************)
\* C05: the receiver reads from node n only what n's handlers produced
ClientRecv(n, m) ==
  /\ Get0(received, <<n, m>>) < Get0(produced, <<n, m>>)
  /\ received' = Upd(received, <<n, m>>, Get0(received, <<n, m>>) + 1)
  /\ UNCHANGED <<rvars, used, msgOf, call, ctxEnded, flow, srv, okRouted, okTaken>>

\* a successful response read from the wire is looked up in the router table:
\* C05: only what the receiver has read from node n for this id is handed on
RouteWire(n, m, found, str) ==
  /\ Get0(okRouted, <<n, m>>) + (IF found THEN 1 ELSE 0) <= Get0(received, <<n, m>>)
  /\ IF found THEN Deliver(<<n, m>>, str) ELSE Drop(<<n, m>>)
  /\ okRouted' = IF found THEN Upd(okRouted, <<n, m>>, Get0(okRouted, <<n, m>>) + 1) ELSE okRouted
  /\ UNCHANGED <<used, msgOf, call, ctxEnded, flow, srv, received, okTaken>>

\* errors (from the sender, the receiver's stream failure, the node's handler)
\* and the sender's confirmations of one-way requests
RouteOther(n, m, found, str) ==
  /\ IF found THEN Deliver(<<n, m>>, str) ELSE Drop(<<n, m>>)
  /\ UNCHANGED gvars

RemoveRouter(n, m) == Delete(<<n, m>>) /\ UNCHANGED gvars

(***************************************************************************)
(* Reply collection                                                        *)
(***************************************************************************)
\* C01/C05/C07: the call consumes a response filed under node n: n was sent
\* to, the response was delivered by n's channel for this id, nothing is
\* consumed after the quorum or after the end, a node counts once
Consume(m, n, isErr) ==
  /\ Open(m) /\ C(m).expected # -1
  /\ n \in C(m).enq
  /\ ~C(m).quorum /\ ~C(m).owesQF
  /\ isErr => n \notin C(m).errs
  /\ ~C(m).stream => n \notin (C(m).oks \cup C(m).errs)
  /\ Recv(<<n, m>>, isErr)
  /\ ~isErr => Get0(okTaken, <<n, m>>) < Get0(okRouted, <<n, m>>)
  /\ okTaken' = IF isErr THEN okTaken ELSE Upd(okTaken, <<n, m>>, Get0(okTaken, <<n, m>>) + 1)
  /\ call' = Upd(call, m, IF isErr THEN [C(m) EXCEPT !.errs = @ \cup {n}]
                          ELSE [C(m) EXCEPT !.oks = @ \cup {n}, !.owesQF = Collecting(C(m).kind)])
  /\ UNCHANGED <<used, msgOf, ctxEnded, flow, srv, received, okRouted>>

\* C01: the quorum function is invoked once after every consumed reply, with
\* exactly the replies consumed so far, never after it has reported a quorum
InvokeQF(m, idx, nodes, q) ==
  /\ Open(m) /\ C(m).owesQF /\ ~C(m).quorum
  /\ idx = C(m).qfn + 1
  /\ nodes = C(m).oks
  /\ call' = Upd(call, m, [C(m) EXCEPT !.qfn = idx, !.quorum = q, !.owesQF = FALSE])
  /\ UNCHANGED <<rvars, used, msgOf, ctxEnded, flow, srv, received, okRouted, okTaken>>

Confirmed(m) ==
  /\ Open(m) /\ ~TwoWay(C(m).kind) /\ ~C(m).nsw
  /\ C(m).confirms < C(m).expected
  /\ call' = Upd(call, m, [C(m) EXCEPT !.confirms = @ + 1])
  /\ UNCHANGED <<rvars, used, msgOf, ctxEnded, flow, srv, received, okRouted, okTaken>>

Exhausted(m) == IF C(m).stream THEN Cardinality(C(m).errs) = C(m).expected
                ELSE Cardinality(C(m).errs) + Cardinality(C(m).oks) = C(m).expected

\* C02: the outcome is determined by what the call consumed
OutcomeOK(m, out) ==
  CASE out = "ok"         -> Collecting(C(m).kind) /\ C(m).quorum /\ ~C(m).owesQF
    [] out = "incomplete" -> Collecting(C(m).kind) /\ ~C(m).quorum /\ ~C(m).owesQF /\ Exhausted(m)
    [] out = "ctx"        -> C(m).tok \in ctxEnded /\ ~C(m).owesQF
    [] out = "reply"      -> C(m).kind = "rpc" /\ Cardinality(C(m).oks \cup C(m).errs) = 1
    [] out = "nowait"     -> ~TwoWay(C(m).kind) /\ C(m).nsw
    [] out = "sent"       -> ~TwoWay(C(m).kind) /\ ~C(m).nsw /\ C(m).confirms = C(m).expected
    [] OTHER              -> FALSE

Finish(m, out) ==
  /\ Open(m) /\ C(m).expected # -1
  /\ OutcomeOK(m, out)
  /\ End(m)
  /\ call' = Upd(call, m, [C(m) EXCEPT !.out = out])
  /\ UNCHANGED <<used, msgOf, ctxEnded, flow, srv, received, okRouted, okTaken>>

CtxEnds(tok) ==
  /\ ctxEnded' = ctxEnded \cup {tok}
  /\ UNCHANGED <<rvars, used, msgOf, call, flow, srv, received, okRouted, okTaken>>

(***************************************************************************)
(* Invariants (checked in every state of every validated execution and in  *)
(* every state of the design-level model GorumsMC)                         *)
(***************************************************************************)
IdsUnique == \A t1, t2 \in DOMAIN msgOf : msgOf[t1] = msgOf[t2] => t1 = t2
OnlyTargets == \A m \in used : (C(m).oks \cup C(m).errs) \subseteq C(m).enq /\ C(m).enq \cap C(m).skipped = {}
ConsumedWasProduced ==
  \A k \in DOMAIN received : received[k] <= Get0(produced, k)
HandlersOnlyOnTargets == \A k \in hOf : k[2] \in used
OneSenderJob == \A n \in DOMAIN sending : sending[n] = 0 \/ sending[n] \in used
QuorumEndsCollection == \A m \in used : C(m).out = "ok" => C(m).quorum
\* C05 end to end: what a call consumed as node n's reply was delivered by n's
\* channel, was read by n's receiver, was produced by n's handler for this
\* very id, and that handler was started by a request written to node n
InSeq(x, q) == \E i \in DOMAIN q : q[i] = x
ReplyChain ==
  /\ \A k \in DOMAIN okTaken : okTaken[k] <= Get0(okRouted, k)
  /\ \A k \in DOMAIN okRouted : okRouted[k] <= Get0(received, k)
  /\ \A k \in DOMAIN produced : k \in hOf
  /\ \A k \in hOf : InSeq(k[2], GetQ(written, k[1]))
\* C03/C04 on every connection: handlers were started in the order of the
\* writes on the node's stream, one unreleased handler at most
StartedInWriteOrder ==
  \A c \in DOMAIN srvRecvd : Get0(nStarted, c) <= Len(srvRecvd[c])
GorumsInv == ReplyChain /\ StartedInWriteOrder /\ IdsUnique /\ OnlyTargets /\ ConsumedWasProduced /\ HandlersOnlyOnTargets /\ OneSenderJob
             /\ QuorumEndsCollection /\ AtMostOneResponse /\ TakenWasDelivered
=============================================================================
