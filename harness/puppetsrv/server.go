// Package puppetsrv implements the Puppet service with handlers scripted by
// the driver: each handler invocation logs its start (connection, arrival
// serial, payload tag) and then obeys commands sent for its call token.
package puppetsrv

import (
	"context"
	"errors"
	"net"
	"sort"
	"strings"
	"sync"
	"time"

	"github.com/relab/gorums"
	"google.golang.org/grpc/codes"
	"google.golang.org/grpc/metadata"
	"google.golang.org/grpc/status"

	"verif/harness/gen/puppet"
	"verif/harness/vtrace"
)

// Cmd is one instruction for a handler.
type Cmd struct {
	Kind string // reply, fail, failplain, item, end, release, release3, releasego, done
	Val  int64
	Code codes.Code
	Msg  string
}

// Server is one puppet node.
type Server struct {
	ID   uint32
	Addr string
	Tr   *vtrace.Tracer
	// Auto, if set, supplies the behaviour of handlers for which the driver has
	// queued no command (nil channel result means: wait for commands).
	Auto func(method string, req *puppet.Req) []Cmd
	// Hold lists call tokens whose handlers must not release on entry.
	mu      sync.Mutex
	hold    map[uint64]bool
	scripts map[uint64]chan Cmd
	serial  uint64
	srv     *gorums.Server
	lis     net.Listener
	up      bool
	SrvOpts []gorums.ServerOption
}

// New returns a stopped puppet server with the given node id.
func New(id uint32, tr *vtrace.Tracer) *Server {
	return &Server{ID: id, Tr: tr, hold: map[uint64]bool{}, scripts: map[uint64]chan Cmd{}}
}

// Start listens (on the previous address after a stop) and serves.
func (s *Server) Start() error {
	s.mu.Lock()
	defer s.mu.Unlock()
	if s.up {
		return nil
	}
	addr := s.Addr
	if addr == "" {
		addr = "127.0.0.1:0"
	}
	var lis net.Listener
	var err error
	for i := 0; i < 50; i++ {
		lis, err = net.Listen("tcp", addr)
		if err == nil {
			break
		}
		time.Sleep(20 * time.Millisecond)
	}
	if err != nil {
		return err
	}
	s.Addr = lis.Addr().String()
	s.lis = lis
	opts := append([]gorums.ServerOption{gorums.WithConnectCallback(s.onConnect)}, s.SrvOpts...)
	s.srv = gorums.NewServer(opts...)
	puppet.RegisterPuppetServer(s.srv, s)
	s.up = true
	srv := s.srv
	go srv.Serve(lis)
	s.Tr.Emit("EnvStart", s.ID, 0)
	return nil
}

// Reserve makes the server pick an address without serving on it.
func (s *Server) Reserve() error {
	lis, err := net.Listen("tcp", "127.0.0.1:0")
	if err != nil {
		return err
	}
	s.Addr = lis.Addr().String()
	return lis.Close()
}

// Stop stops the server immediately (connections are reset).
func (s *Server) Stop() {
	s.mu.Lock()
	srv := s.srv
	up := s.up
	s.up = false
	s.srv = nil
	s.mu.Unlock()
	if up {
		s.Tr.Emit("EnvStop", s.ID, 0)
		srv.Stop()
		s.Tr.Emit("EnvStopped", s.ID, 0)
	}
}

// Up reports whether the server is serving.
func (s *Server) Up() bool {
	s.mu.Lock()
	defer s.mu.Unlock()
	return s.up
}

func (s *Server) onConnect(ctx context.Context) {
	md, _ := metadata.FromIncomingContext(ctx)
	var parts []string
	for k, vs := range md {
		if strings.HasPrefix(k, "v-") {
			parts = append(parts, k+"="+strings.Join(vs, ","))
		}
	}
	sort.Strings(parts)
	s.Tr.Emit("HAccept", s.ID, 0, "conn", ctx, "md", strings.Join(parts, ";"))
}

// Script returns the command channel of a call token on this server.
func (s *Server) Script(tok uint64) chan Cmd {
	s.mu.Lock()
	defer s.mu.Unlock()
	ch, ok := s.scripts[tok]
	if !ok {
		ch = make(chan Cmd, 32)
		s.scripts[tok] = ch
	}
	return ch
}

// Forget drops the script of a finished call.
func (s *Server) Forget(tok uint64) {
	s.mu.Lock()
	delete(s.scripts, tok)
	delete(s.hold, tok)
	s.mu.Unlock()
}

// SetHold makes the handler of tok keep the ordering lock until told.
func (s *Server) SetHold(tok uint64, hold bool) {
	s.mu.Lock()
	s.hold[tok] = hold
	s.mu.Unlock()
}

func (s *Server) enter(ctx gorums.ServerCtx, method string, req *puppet.Req) (chan Cmd, uint64, uint64) {
	s.mu.Lock()
	s.serial++
	serial := s.serial
	hold := s.hold[req.GetCall()]
	s.mu.Unlock()
	conn := s.Tr.ConnID(ctx)
	s.Tr.Emit("HStart", s.ID, req.GetCall(), "conn", ctx, "serial", serial, "tag", req.GetTag(), "orig", req.GetOrig(), "method", method)
	ch := s.Script(req.GetCall())
	if s.Auto != nil {
		for _, c := range s.Auto(method, req) {
			ch <- c
		}
	}
	if !hold {
		// the event is recorded before the lock is released, so that it precedes
		// everything the release enables
		s.Tr.Emit("HRelease", s.ID, req.GetCall(), "conn", ctx, "how", "entry")
		ctx.Release()
	}
	return ch, serial, conn
}

// next waits for the next command; ok is false when the connection ended.
func (s *Server) next(ctx gorums.ServerCtx, tok uint64, ch chan Cmd) (Cmd, bool) {
	for {
		select {
		case c := <-ch:
			switch c.Kind {
			case "sleep":
				time.Sleep(time.Duration(c.Val) * time.Microsecond)
				continue
			case "release":
				s.Tr.Emit("HRelease", s.ID, tok, "conn", ctx, "how", "cmd")
				ctx.Release()
				continue
			case "release3":
				s.Tr.Emit("HRelease", s.ID, tok, "conn", ctx, "how", "x3")
				ctx.Release()
				ctx.Release()
				ctx.Release()
				continue
			case "releasego":
				s.Tr.Emit("HRelease", s.ID, tok, "conn", ctx, "how", "go3")
				var wg sync.WaitGroup
				for i := 0; i < 3; i++ {
					wg.Add(1)
					go func() { defer wg.Done(); ctx.Release() }()
				}
				wg.Wait()
				continue
			}
			return c, true
		case <-ctx.Done():
			s.Tr.Emit("HAbort", s.ID, tok, "conn", ctx)
			return Cmd{}, false
		}
	}
}

func (s *Server) unary(ctx gorums.ServerCtx, method string, req *puppet.Req) (*puppet.Rep, error) {
	ch, serial, conn := s.enter(ctx, method, req)
	tok := req.GetCall()
	defer s.Tr.Emit("HReturn", s.ID, tok, "conn", ctx)
	for {
		c, ok := s.next(ctx, tok, ch)
		if !ok {
			return nil, status.Error(codes.Aborted, "connection ended")
		}
		switch c.Kind {
		case "reply":
			s.Tr.Emit("HReply", s.ID, tok, "conn", ctx, "val", c.Val, "serial", serial)
			return &puppet.Rep{Call: tok, Node: s.ID, Conn: conn, Serial: serial, Val: c.Val, Tag: req.GetTag()}, nil
		case "fail":
			s.Tr.Emit("HFail", s.ID, tok, "conn", ctx, "code", int(c.Code), "text", c.Msg)
			return nil, status.Error(c.Code, c.Msg)
		case "failplain":
			s.Tr.Emit("HFail", s.ID, tok, "conn", ctx, "code", int(codes.Unknown), "text", c.Msg)
			return nil, errors.New(c.Msg)
		}
	}
}

func (s *Server) stream(ctx gorums.ServerCtx, method string, req *puppet.Req, send func(*puppet.Rep) error) error {
	ch, serial, conn := s.enter(ctx, method, req)
	tok := req.GetCall()
	defer s.Tr.Emit("HReturn", s.ID, tok, "conn", ctx)
	for {
		c, ok := s.next(ctx, tok, ch)
		if !ok {
			return nil
		}
		switch c.Kind {
		case "item", "reply":
			s.Tr.Emit("HReply", s.ID, tok, "conn", ctx, "val", c.Val, "serial", serial)
			if err := send(&puppet.Rep{Call: tok, Node: s.ID, Conn: conn, Serial: serial, Val: c.Val, Tag: req.GetTag()}); err != nil {
				return nil
			}
		case "end":
			s.Tr.Emit("HEnd", s.ID, tok, "conn", ctx)
			return nil
		case "fail":
			s.Tr.Emit("HFail", s.ID, tok, "conn", ctx, "code", int(c.Code), "text", c.Msg)
			return status.Error(c.Code, c.Msg)
		}
	}
}

func (s *Server) oneway(ctx gorums.ServerCtx, method string, req *puppet.Req) {
	ch, _, _ := s.enter(ctx, method, req)
	tok := req.GetCall()
	defer s.Tr.Emit("HReturn", s.ID, tok, "conn", ctx)
	for {
		c, ok := s.next(ctx, tok, ch)
		if !ok {
			return
		}
		if c.Kind == "done" || c.Kind == "reply" || c.Kind == "end" || c.Kind == "fail" {
			s.Tr.Emit("HEnd", s.ID, tok, "conn", ctx)
			return
		}
	}
}

func (s *Server) Rpc(ctx gorums.ServerCtx, r *puppet.Req) (*puppet.Rep, error) {
	return s.unary(ctx, "Rpc", r)
}

func (s *Server) QC(ctx gorums.ServerCtx, r *puppet.Req) (*puppet.Rep, error) {
	return s.unary(ctx, "QC", r)
}

func (s *Server) QCPerNode(ctx gorums.ServerCtx, r *puppet.Req) (*puppet.Rep, error) {
	return s.unary(ctx, "QCPerNode", r)
}

func (s *Server) QCCustom(ctx gorums.ServerCtx, r *puppet.Req) (*puppet.Rep, error) {
	return s.unary(ctx, "QCCustom", r)
}

func (s *Server) QCCombo(ctx gorums.ServerCtx, r *puppet.Req) (*puppet.Rep, error) {
	return s.unary(ctx, "QCCombo", r)
}

func (s *Server) Async(ctx gorums.ServerCtx, r *puppet.Req) (*puppet.Rep, error) {
	return s.unary(ctx, "Async", r)
}

func (s *Server) AsyncPerNode(ctx gorums.ServerCtx, r *puppet.Req) (*puppet.Rep, error) {
	return s.unary(ctx, "AsyncPerNode", r)
}

func (s *Server) AsyncCustom(ctx gorums.ServerCtx, r *puppet.Req) (*puppet.Rep, error) {
	return s.unary(ctx, "AsyncCustom", r)
}

func (s *Server) Corr(ctx gorums.ServerCtx, r *puppet.Req) (*puppet.Rep, error) {
	return s.unary(ctx, "Corr", r)
}

func (s *Server) CorrPerNode(ctx gorums.ServerCtx, r *puppet.Req) (*puppet.Rep, error) {
	return s.unary(ctx, "CorrPerNode", r)
}

func (s *Server) CorrCustom(ctx gorums.ServerCtx, r *puppet.Req) (*puppet.Rep, error) {
	return s.unary(ctx, "CorrCustom", r)
}

func (s *Server) CorrStream(ctx gorums.ServerCtx, r *puppet.Req, send func(*puppet.Rep) error) error {
	return s.stream(ctx, "CorrStream", r, send)
}

func (s *Server) CorrStreamCustom(ctx gorums.ServerCtx, r *puppet.Req, send func(*puppet.Rep) error) error {
	return s.stream(ctx, "CorrStreamCustom", r, send)
}

func (s *Server) Mcast(ctx gorums.ServerCtx, r *puppet.Req)        { s.oneway(ctx, "Mcast", r) }
func (s *Server) McastPerNode(ctx gorums.ServerCtx, r *puppet.Req) { s.oneway(ctx, "McastPerNode", r) }
func (s *Server) Ucast(ctx gorums.ServerCtx, r *puppet.Req)        { s.oneway(ctx, "Ucast", r) }
