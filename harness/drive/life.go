package drive

import (
	"fmt"
	"time"

	"github.com/relab/gorums"
	"google.golang.org/grpc/backoff"
	"google.golang.org/grpc/metadata"

	"verif/harness/gen/puppet"
	"verif/harness/puppetsrv"
	"verif/harness/vtrace"
)

// Life runs the lifecycle scenarios (C08, C09, C10, C12): scripted sequences
// of calls, context ends, crashes, restarts and Close, in which library
// goroutines are held at gate hooks so that the interleavings TLC exhibits on
// Channel.tla are reached deterministically.  The verdict comes from the
// trace (LifeTrace.tla): at quiescence every call whose context ended has
// returned, every probe to a reachable node was answered, and after Close
// everything has terminated.

// LifeKinds are the call kinds a scenario is instantiated for.
var LifeKinds = []string{"Rpc", "QC", "Async", "Corr", "CorrStream", "Ucast", "UcastNsw", "Mcast", "McastNsw"}

// QuietT is the quiescence period of the lifecycle scenarios.
var QuietT = 1500 * time.Millisecond

type lifeCall struct {
	tok  uint64
	ctx  *ManualCtx
	done chan struct{}
	obj  *callObj
}

type life struct {
	e   *Env
	r   *Runner
	tr  *vtrace.Tracer
	all []*lifeCall
}

func newLife(tr *vtrace.Tracer, o EnvOpts) (*life, error) {
	e, err := NewEnv(tr, o)
	if err != nil {
		return nil, err
	}
	for _, s := range e.Servers {
		s.Auto = func(method string, req *puppet.Req) []puppetsrv.Cmd {
			if req.GetTag() == 99 { // silent handler: waits for commands
				return nil
			}
			switch method {
			case "CorrStream", "CorrStreamCustom":
				return []puppetsrv.Cmd{{Kind: "item", Val: 1}, {Kind: "end"}}
			case "Mcast", "McastPerNode", "Ucast":
				return []puppetsrv.Cmd{{Kind: "done"}}
			}
			return []puppetsrv.Cmd{{Kind: "reply", Val: 1}}
		}
	}
	return &life{e: e, r: &Runner{E: e}, tr: tr}, nil
}

// call issues a call of the given kind towards node 1 (RPC, unicast) or the
// configuration of the first size nodes.  silent makes the handlers wait.
func (l *life) call(kind string, size int, probe, silent bool) *lifeCall {
	method, nsw := kind, false
	switch kind {
	case "UcastNsw":
		method, nsw = "Ucast", true
	case "McastNsw":
		method, nsw = "Mcast", true
	}
	c := &lifeCall{tok: l.e.NextTok(), done: make(chan struct{}), obj: &callObj{}}
	c.ctx = NewManualCtx(c.tok)
	req := &puppet.Req{Call: c.tok}
	if silent {
		req.Tag = 99
	}
	k := methodKind[method]
	lv := "none"
	if k == "corr" || k == "corrstream" {
		lv = "count"
	}
	l.e.QS.Set(c.tok, &QFParams{QF: "thr", K: size, Lv: lv, Orig: req})
	l.tr.Emit("StubCall", 0, c.tok, "method", method, "probe", probe, "kind", k)
	l.all = append(l.all, c)
	go func() {
		defer close(c.done)
		l.r.Invoke(c.tok, method, k, l.e.Cfgs[size], l.e.Node(1), func(q *puppet.Req, _ uint32) *puppet.Req { return q }, nsw, c.ctx, req, c.obj)
		// the caller is served when the future / correctable has completed
		tag := ""
		switch {
		case c.obj.asyncRep != nil:
			_, err := c.obj.asyncRep.Get()
			tag = classify(err).tag
		case c.obj.asyncAgg != nil:
			_, err := c.obj.asyncAgg.Get()
			tag = classify(err).tag
		case c.obj.corr != nil:
			<-c.obj.corr.Done()
			_, _, err := c.obj.corr.Get()
			tag = classify(err).tag
		}
		l.tr.Emit("CallServed", 0, c.tok, "tag", tag)
	}()
	return c
}

// callPre issues a call whose context has ended before the invocation.
func (l *life) callPre(kind string, size int) *lifeCall {
	method, nsw := kind, false
	switch kind {
	case "UcastNsw":
		method, nsw = "Ucast", true
	case "McastNsw":
		method, nsw = "Mcast", true
	}
	c := &lifeCall{tok: l.e.NextTok(), done: make(chan struct{}), obj: &callObj{}}
	c.ctx = NewManualCtx(c.tok)
	req := &puppet.Req{Call: c.tok}
	k := methodKind[method]
	lv := "none"
	if k == "corr" || k == "corrstream" {
		lv = "count"
	}
	l.e.QS.Set(c.tok, &QFParams{QF: "thr", K: size, Lv: lv, Orig: req})
	l.tr.Emit("StubCall", 0, c.tok, "method", method, "probe", false, "kind", k)
	l.tr.Emit("CtxEnd", 0, c.tok, "cause", "canceled")
	c.ctx.End("canceled")
	l.all = append(l.all, c)
	go func() {
		defer close(c.done)
		l.r.Invoke(c.tok, method, k, l.e.Cfgs[size], l.e.Node(1), func(q *puppet.Req, _ uint32) *puppet.Req { return q }, nsw, c.ctx, req, c.obj)
		switch {
		case c.obj.asyncRep != nil:
			c.obj.asyncRep.Get()
		case c.obj.asyncAgg != nil:
			c.obj.asyncAgg.Get()
		case c.obj.corr != nil:
			<-c.obj.corr.Done()
		}
		l.tr.Emit("CallServed", 0, c.tok, "tag", "")
	}()
	return c
}

// mustServe records that the call has to return by itself (with any outcome).
func (l *life) mustServe(c *lifeCall) { l.tr.Emit("MustServe", 0, c.tok) }

func (l *life) endCtx(c *lifeCall) {
	l.tr.Emit("CtxEnd", 0, c.tok, "cause", "canceled")
	c.ctx.End("canceled")
}

func (l *life) wait(c *lifeCall, d time.Duration) bool {
	select {
	case <-c.done:
		return true
	case <-time.After(d):
		return false
	}
}

func (l *life) awaitEv(from int, d time.Duration, name string, node uint32) bool {
	return l.tr.Await(from, d, func(e vtrace.Event) bool { return e.Ev == name && (node == 0 || e.Node == node) }) >= 0
}

// quiescent waits for the quiescence period and records the Quiescent event
// together with the census of library goroutines.
func (l *life) quiescent() {
	l.tr.Quiet(QuietT/3, QuietT)
	time.Sleep(QuietT / 3)
	l.tr.Emit("Quiescent", 0, 0, "libgoroutines", LibGoroutines(), "callgoroutines", CallGoroutines())
}

func (l *life) gate(name string, node uint32) *vtrace.Gate {
	return l.tr.NewGate(func(e vtrace.Event) bool { return e.Ev == name && e.Node == node })
}

// finish ends every context (so that nothing of this scenario lingers) and closes the environment.
func (l *life) finish() {
	for _, c := range l.all {
		c.ctx.End("canceled")
	}
	for _, s := range l.e.Servers {
		for _, c := range l.all {
			select {
			case s.Script(c.tok) <- puppetsrv.Cmd{Kind: "reply", Val: 1}:
			default:
			}
		}
	}
	closed := make(chan struct{})
	go func() { defer func() { recover(); close(closed) }(); l.e.Close() }()
	select {
	case <-closed:
	case <-time.After(2 * time.Second):
	}
}

// LifeScenario is one named scenario.
type LifeScenario struct {
	Name string
	Kind string
	Run  func(tr *vtrace.Tracer, kind string) error
}

var fastBackoff = backoff.Config{BaseDelay: 20 * time.Millisecond, Multiplier: 1.2, Jitter: 0, MaxDelay: 60 * time.Millisecond}

// a back-off that cannot rescue anything within the quiescence period
var slowBackoff = backoff.Config{BaseDelay: 20 * time.Second, Multiplier: 1.6, Jitter: 0, MaxDelay: 60 * time.Second}

// C08: the context of a call ends while it waits for the hand-off to a sender
// that is busy writing another request.
func scenCtxWhileQueued(tr *vtrace.Tracer, kind string) error {
	l, err := newLife(tr, EnvOpts{Nodes: 2})
	if err != nil {
		return err
	}
	defer l.finish()
	g := l.gate("SendWait", 1)
	from := tr.Len()
	a := l.call("Rpc", 2, false, false)
	if !g.Arrived(SyncTimeout) {
		return fmt.Errorf("sender did not reach SendWait")
	}
	b := l.call(kind, 2, false, false)
	l.awaitEv(from, SyncTimeout, "HandOffWait", 1)
	time.Sleep(5 * time.Millisecond)
	l.endCtx(b)
	l.wait(b, QuietT)
	l.quiescent()
	g.Open()
	l.wait(a, SyncTimeout)
	return nil
}

// C08: the context ends while the request sits in the send buffer behind a busy sender.
func scenCtxWhileBuffered(tr *vtrace.Tracer, kind string) error {
	l, err := newLife(tr, EnvOpts{Nodes: 2, SendBuf: 4})
	if err != nil {
		return err
	}
	defer l.finish()
	g := l.gate("SendWait", 1)
	from := tr.Len()
	a := l.call("Rpc", 2, false, false)
	if !g.Arrived(SyncTimeout) {
		return fmt.Errorf("sender did not reach SendWait")
	}
	b := l.call(kind, 2, false, false)
	tr.Await(from, SyncTimeout, func(e vtrace.Event) bool { return e.Ev == "HandOff" && e.Tok == b.tok })
	time.Sleep(5 * time.Millisecond)
	l.endCtx(b)
	l.wait(b, QuietT)
	l.quiescent()
	g.Open()
	l.wait(a, SyncTimeout)
	return nil
}

// C08: the context ends while the call's own request is being written.
func scenCtxWhileWritten(tr *vtrace.Tracer, kind string) error {
	l, err := newLife(tr, EnvOpts{Nodes: 2})
	if err != nil {
		return err
	}
	defer l.finish()
	g := l.gate("SendWait", 1)
	b := l.call(kind, 2, false, false)
	if !g.Arrived(SyncTimeout) {
		return fmt.Errorf("sender did not reach SendWait")
	}
	l.endCtx(b)
	l.wait(b, QuietT)
	l.quiescent()
	g.Open()
	// C09: the node must still be usable afterwards
	time.Sleep(50 * time.Millisecond)
	p := l.call("Rpc", 2, true, false)
	l.wait(p, QuietT)
	l.quiescent()
	return nil
}

// C08: the context ends while the call awaits replies of handlers that never answer.
func scenCtxWhileAwaiting(tr *vtrace.Tracer, kind string) error {
	l, err := newLife(tr, EnvOpts{Nodes: 2})
	if err != nil {
		return err
	}
	defer l.finish()
	from := tr.Len()
	b := l.call(kind, 2, false, true)
	l.awaitEv(from, SyncTimeout, "HStart", 1)
	l.endCtx(b)
	l.wait(b, QuietT)
	l.quiescent()
	p := l.call("Rpc", 2, true, false)
	l.wait(p, QuietT)
	l.quiescent()
	return nil
}

// C09: the interleaving of TLC's counterexample to NoLockWedge: the sender
// decides to reconnect on a stale "broken" flag while the receiver has already
// re-created the stream and parked in RecvMsg holding the read lock.
func scenStaleBrokenRead(tr *vtrace.Tracer, kind string) error {
	l, err := newLife(tr, EnvOpts{Nodes: 1, MgrOpts: []gorums.ManagerOption{gorums.WithBackoff(fastBackoff)}})
	if err != nil {
		return err
	}
	defer l.finish()
	a := l.call("Rpc", 1, false, false)
	if !l.wait(a, SyncTimeout) {
		return fmt.Errorf("first call did not complete")
	}
	from := tr.Len()
	l.e.Server(1).Stop()
	if !l.awaitEv(from, SyncTimeout, "ReconSleep", 1) {
		return fmt.Errorf("receiver did not start reconnecting")
	}
	// hold only the sender's single-attempt reconnect (who > 0) before its Lock()
	g := tr.NewGate(func(e vtrace.Event) bool { return e.Ev == "ReconLockWait" && e.Node == 1 && e.Int("who") > 0 })
	b := l.call(kind, 1, false, false)
	if !g.Arrived(SyncTimeout) {
		g.Open()
		return fmt.Errorf("sender did not reach reconnect")
	}
	// the server comes back; the receiver's next attempt succeeds and it parks in RecvMsg
	pos := tr.Len()
	if err := l.e.Server(1).Start(); err != nil {
		g.Open()
		return err
	}
	parked := tr.Await(pos, 2*SyncTimeout, func(e vtrace.Event) bool { return e.Ev == "RecvWait" && e.Node == 1 }) >= 0
	g.Open() // now the sender goes for the write lock
	if !parked {
		return fmt.Errorf("receiver did not re-park")
	}
	l.wait(b, QuietT)
	p := l.call("Rpc", 1, true, false)
	l.wait(p, QuietT)
	l.quiescent()
	return nil
}

// C09: a streaming call completes (quorum function done) while the servers
// keep sending; the receiver must not be blocked for good by the abandoned call.
func scenStreamOutrunsCall(tr *vtrace.Tracer, kind string) error {
	l, err := newLife(tr, EnvOpts{Nodes: 1})
	if err != nil {
		return err
	}
	defer l.finish()
	for _, s := range l.e.Servers {
		s.Auto = func(method string, req *puppet.Req) []puppetsrv.Cmd {
			if method == "CorrStream" {
				return []puppetsrv.Cmd{{Kind: "item", Val: 1}, {Kind: "item", Val: 1}, {Kind: "item", Val: 1}, {Kind: "item", Val: 1}, {Kind: "end"}}
			}
			return []puppetsrv.Cmd{{Kind: "reply", Val: 1}}
		}
	}
	c := &lifeCall{tok: l.e.NextTok(), done: make(chan struct{}), obj: &callObj{}}
	c.ctx = NewManualCtx(c.tok)
	req := &puppet.Req{Call: c.tok}
	release := make(chan struct{})
	from := tr.Len()
	first := true
	// the quorum function reports done at the first item, but is slow: it returns
	// only after the receiver has been handed the following items
	l.e.QS.Set(c.tok, &QFParams{QF: "thr", K: 1, Lv: "count", Orig: req, Delay: func() {
		if first {
			first = false
			<-release
		}
	}})
	l.all = append(l.all, c)
	tr.Emit("StubCall", 0, c.tok, "method", "CorrStream", "probe", false, "kind", "corrstream")
	go func() {
		defer close(c.done)
		l.r.Invoke(c.tok, "CorrStream", "corrstream", l.e.Cfgs[1], l.e.Node(1), nil, false, c.ctx, req, c.obj)
		tag := ""
		if c.obj.corr != nil {
			<-c.obj.corr.Done()
			_, _, err := c.obj.corr.Get()
			tag = classify(err).tag
		}
		tr.Emit("CallServed", 0, c.tok, "tag", tag)
	}()
	// wait until the receiver has been handed three items (1 consumed, 1 buffered, 1 blocking)
	n := 0
	tr.Await(from, SyncTimeout, func(e vtrace.Event) bool {
		if e.Ev == "Route" && e.Tok == c.tok {
			n++
		}
		return n >= 3
	})
	time.Sleep(5 * time.Millisecond)
	close(release)
	l.wait(c, QuietT)
	p := l.call("Rpc", 1, true, false)
	l.wait(p, QuietT)
	l.quiescent()
	return nil
}

// C08: the context of a streaming correctable call ends while the server keeps
// sending updates faster than the (slow) quorum function consumes them, so that
// a reply is buffered whenever the call looks: the call must still notice its
// context.
func scenCtxWhileStreamFloods(tr *vtrace.Tracer, kind string) error {
	l, err := newLife(tr, EnvOpts{Nodes: 1})
	if err != nil {
		return err
	}
	defer l.finish()
	for _, s := range l.e.Servers {
		s.Auto = func(method string, req *puppet.Req) []puppetsrv.Cmd {
			if method == "CorrStream" {
				return nil // fed by the scenario
			}
			return []puppetsrv.Cmd{{Kind: "reply", Val: 1}}
		}
	}
	c := &lifeCall{tok: l.e.NextTok(), done: make(chan struct{}), obj: &callObj{}}
	c.ctx = NewManualCtx(c.tok)
	req := &puppet.Req{Call: c.tok}
	from := tr.Len()
	// the quorum function never reports done and takes 25 ms per invocation (300 updates outlast the quiescence period)
	l.e.QS.Set(c.tok, &QFParams{QF: "thr", K: 1000, Lv: "count", Orig: req, Delay: func() { time.Sleep(25 * time.Millisecond) }})
	l.all = append(l.all, c)
	tr.Emit("StubCall", 0, c.tok, "method", "CorrStream", "probe", false, "kind", "corrstream")
	go func() {
		defer close(c.done)
		l.r.Invoke(c.tok, "CorrStream", "corrstream", l.e.Cfgs[1], l.e.Node(1), nil, false, c.ctx, req, c.obj)
		tag := ""
		if c.obj.corr != nil {
			<-c.obj.corr.Done()
			_, _, err := c.obj.corr.Get()
			tag = classify(err).tag
		}
		tr.Emit("CallServed", 0, c.tok, "tag", tag)
	}()
	if !l.awaitEv(from, SyncTimeout, "HStart", 1) {
		return fmt.Errorf("handler did not start")
	}
	stop := make(chan struct{})
	fed := make(chan struct{})
	go func() {
		defer close(fed)
		ch := l.e.Server(1).Script(c.tok)
		for i := 0; i < 300; i++ {
			select {
			case ch <- puppetsrv.Cmd{Kind: "item", Val: 1}:
			case <-stop:
				ch <- puppetsrv.Cmd{Kind: "end"}
				return
			}
		}
		ch <- puppetsrv.Cmd{Kind: "end"}
	}()
	// the call has consumed a few updates and more are waiting
	n := 0
	tr.Await(from, SyncTimeout, func(e vtrace.Event) bool {
		if e.Ev == "CallRecv" && e.Tok == c.tok {
			n++
		}
		return n >= 4
	})
	l.endCtx(c)
	l.wait(c, QuietT)
	l.quiescent()
	close(stop)
	select {
	case <-fed:
	case <-time.After(SyncTimeout):
	}
	p := l.call("Rpc", 1, true, false)
	l.wait(p, QuietT)
	l.quiescent()
	return nil
}

// C09: the context of a streaming call ends while the call is still handing
// its requests to the senders (node 2's sender is busy) and the replies of
// node 1 have already filled the call's reply channel, which nobody reads
// before all requests are enqueued.  The call must end and node 2 must stay usable.
func scenStreamCtxWhileQueuedFull(tr *vtrace.Tracer, kind string) error {
	l, err := newLife(tr, EnvOpts{Nodes: 2})
	if err != nil {
		return err
	}
	defer l.finish()
	for _, s := range l.e.Servers {
		s.Auto = func(method string, req *puppet.Req) []puppetsrv.Cmd {
			if method == "CorrStream" {
				return []puppetsrv.Cmd{{Kind: "item", Val: 1}, {Kind: "item", Val: 1}, {Kind: "item", Val: 1}, {Kind: "item", Val: 1}, {Kind: "end"}}
			}
			return []puppetsrv.Cmd{{Kind: "reply", Val: 1}}
		}
	}
	g := l.gate("SendWait", 2)
	a := l.call("QC", 2, false, false)
	if !g.Arrived(SyncTimeout) {
		g.Open()
		return fmt.Errorf("sender of node 2 did not reach SendWait")
	}
	from := tr.Len()
	b := l.call("CorrStream", 2, false, false)
	// node 1 has been handed three items (2 buffered, 1 blocking) and the call waits for node 2's sender
	n := 0
	full := tr.Await(from, SyncTimeout, func(e vtrace.Event) bool {
		if e.Ev == "Route" && e.Tok == b.tok && e.Node == 1 {
			n++
		}
		return n >= 3
	}) >= 0
	queued := l.awaitEv(from, SyncTimeout, "HandOffWait", 2)
	if !full || !queued {
		g.Open()
		return fmt.Errorf("reply channel not full (%v) or call not queued (%v)", full, queued)
	}
	time.Sleep(5 * time.Millisecond)
	l.endCtx(b)
	l.wait(b, QuietT)
	g.Open()
	l.wait(a, SyncTimeout)
	p := l.call("QC", 2, true, false)
	l.wait(p, QuietT)
	l.quiescent()
	return nil
}

// C09/C18: TLC's counterexample to NoResidue (SenderReconnectStrandsPending):
// a request is pending on a stream; the stream is cancelled (another call's
// context ends while being written) while the receiver is between two reads;
// the sender re-creates the stream for the next request.  The pending request
// must be failed, not left waiting for ever.
func scenStreamReplaced(tr *vtrace.Tracer, kind string) error {
	switch kind {
	case "Ucast", "UcastNsw", "Mcast", "McastNsw":
		kind = "Rpc" // a one-way call is never pending for a reply
	}
	l, err := newLife(tr, EnvOpts{Nodes: 1})
	if err != nil {
		return err
	}
	defer l.finish()
	from := tr.Len()
	a := l.call(kind, 1, false, true) // pending: its handler never answers
	l.mustServe(a)
	if !l.awaitEv(from, SyncTimeout, "HStart", 1) {
		return fmt.Errorf("handler of the pending call did not start")
	}
	// park the receiver between two reads
	gr := l.gate("RcvLoopEnd", 1)
	c := l.call("Rpc", 1, false, false)
	if !gr.Arrived(SyncTimeout) {
		gr.Open()
		return fmt.Errorf("receiver did not reach the end of its loop")
	}
	l.wait(c, SyncTimeout)
	// cancel the stream: a context ends while its request is being written
	gs := l.gate("SendWait", 1)
	d := l.call("Rpc", 1, false, false)
	if !gs.Arrived(SyncTimeout) {
		gr.Open()
		gs.Open()
		return fmt.Errorf("sender did not reach SendWait")
	}
	pos := tr.Len()
	l.endCtx(d)
	tr.Await(pos, SyncTimeout, func(e vtrace.Event) bool { return e.Ev == "WatcherCancel" })
	gs.Open()
	l.wait(d, SyncTimeout)
	// the next requests make the sender notice the broken stream and re-create it
	for i := 0; i < 3; i++ {
		x := l.call("Rpc", 1, false, false)
		time.Sleep(20 * time.Millisecond)
		_ = x
	}
	time.Sleep(50 * time.Millisecond)
	gr.Open() // the receiver goes on: it finds a new stream
	l.wait(a, QuietT)
	p := l.call("Rpc", 1, true, false)
	l.wait(p, QuietT)
	l.quiescent()
	// the stream fails once more (a context ends during a write): whatever the receiver did when it
	// found its stream replaced must not keep the next re-creation from happening
	gs2 := l.gate("SendWait", 1)
	d2 := l.call("Rpc", 1, false, false)
	if gs2.Arrived(SyncTimeout) {
		pos2 := tr.Len()
		l.endCtx(d2)
		tr.Await(pos2, SyncTimeout, func(e vtrace.Event) bool { return e.Ev == "WatcherCancel" })
	}
	gs2.Open()
	l.wait(d2, SyncTimeout)
	for i := 0; i < 3; i++ {
		x := l.call("Rpc", 1, false, false)
		l.wait(x, QuietT)
		time.Sleep(20 * time.Millisecond)
	}
	p2 := l.call("Rpc", 1, true, false)
	l.wait(p2, QuietT)
	l.quiescent()
	return nil
}

// C09/C18: TLC's counterexample to NoStrandedCall on the model with the eager
// connect: the receiver sleeps in its back-off after a crash; the server is back;
// the sender re-creates the stream for a new request (pending: its handler does
// not answer) and the receiver, woken, has not yet looked at the new stream when
// that stream is cancelled (another call's context ends while it is being
// written).  The receiver then creates a third stream.  The request pending on
// the second stream - which the receiver never read from - must be failed.
func scenStreamDiesUnseen(tr *vtrace.Tracer, kind string) error {
	switch kind {
	case "Ucast", "UcastNsw", "Mcast", "McastNsw":
		kind = "Rpc" // a one-way call is never pending for a reply
	}
	l, err := newLife(tr, EnvOpts{Nodes: 1, MgrOpts: []gorums.ManagerOption{gorums.WithBackoff(slowBackoff)}})
	if err != nil {
		return err
	}
	defer l.finish()
	a := l.call("Rpc", 1, false, false)
	if !l.wait(a, SyncTimeout) {
		return fmt.Errorf("first call did not complete")
	}
	from := tr.Len()
	l.e.Server(1).Stop()
	if !l.awaitEv(from, SyncTimeout, "ReconSleep", 1) {
		return fmt.Errorf("receiver did not start reconnecting")
	}
	if err := l.e.Server(1).Start(); err != nil {
		return err
	}
	ready := false
	for i := 0; i < 300 && !ready; i++ {
		ready = gorums.VerifRedialNow(l.e.Node(1).RawNode)
		time.Sleep(10 * time.Millisecond)
	}
	if !ready {
		return fmt.Errorf("transport did not become ready")
	}
	// the receiver, once woken, is held before it takes the stream lock
	gr := tr.NewGate(func(e vtrace.Event) bool { return e.Ev == "ReconLockWait" && e.Node == 1 && e.Int("who") < 0 })
	pos := tr.Len()
	b := l.call(kind, 1, false, true) // pending on the second stream
	l.mustServe(b)
	if !l.awaitEv(pos, SyncTimeout, "HStart", 1) {
		gr.Open()
		return fmt.Errorf("handler of the pending call did not start")
	}
	if !gr.Arrived(SyncTimeout) {
		gr.Open()
		return fmt.Errorf("receiver was not woken")
	}
	// cancel the second stream: a context ends while its request is being written
	gs := l.gate("SendWait", 1)
	c := l.call("Rpc", 1, false, false)
	if !gs.Arrived(SyncTimeout) {
		gr.Open()
		gs.Open()
		return fmt.Errorf("sender did not reach SendWait")
	}
	pos = tr.Len()
	l.endCtx(c)
	tr.Await(pos, SyncTimeout, func(e vtrace.Event) bool { return e.Ev == "WatcherCancel" })
	gs.Open()
	l.wait(c, SyncTimeout)
	// the next request makes the sender notice the broken stream
	for i := 0; i < 2; i++ {
		x := l.call("Rpc", 1, false, false)
		l.wait(x, 100*time.Millisecond)
	}
	gr.Open() // the receiver goes on: it creates a third stream
	l.wait(b, QuietT)
	p := l.call("Rpc", 1, true, false)
	l.wait(p, QuietT)
	l.quiescent()
	return nil
}

// C03: FIFO across a stream break with a send buffer.  The first of several
// asynchronous / one-way calls is being written (sender held before SendMsg),
// the others wait in the send buffer; the server is restarted, so the write
// fails while the context is alive; the remaining calls travel over the new
// connection.  Whatever happens to the first call (it may fail), a server
// must never start it AFTER the calls that were issued after it.
func scenFifoAcrossStreamBreak(tr *vtrace.Tracer, kind string) error {
	switch kind {
	case "Rpc", "QC", "Ucast", "Mcast":
		return nil // synchronous invocations do not queue behind each other from one goroutine
	}
	l, err := newLife(tr, EnvOpts{Nodes: 1, SendBuf: 8, MgrOpts: []gorums.ManagerOption{gorums.WithBackoff(fastBackoff)}})
	if err != nil {
		return err
	}
	defer l.finish()
	w := l.call("Rpc", 1, false, false)
	l.wait(w, SyncTimeout)
	g := l.gate("SendWait", 1)
	from := tr.Len()
	issue := func() *lifeCall {
		c := l.call(kind, 1, false, false)
		// the stub of an asynchronous / no-send-waiting call returns once the request is queued
		tr.Await(from, SyncTimeout, func(e vtrace.Event) bool { return e.Ev == "StubRet" && e.Tok == c.tok })
		return c
	}
	first := issue()
	if !g.Arrived(SyncTimeout) {
		g.Open()
		return fmt.Errorf("sender did not reach SendWait")
	}
	var rest []*lifeCall
	for i := 0; i < 4; i++ {
		rest = append(rest, issue())
	}
	l.e.Server(1).Stop()
	l.awaitEv(from, SyncTimeout, "RecvErr", 1)
	if err := l.e.Server(1).Start(); err != nil {
		g.Open()
		return err
	}
	for i := 0; i < 300; i++ {
		if gorums.VerifRedialNow(l.e.Node(1).RawNode) {
			break
		}
		time.Sleep(10 * time.Millisecond)
	}
	// the write of the first call fails (its stream is gone); the sender is then held
	// with the next request until the receiver has re-created the stream, so that
	// the buffered calls travel over the new connection
	g2 := l.gate("SndConnCheck", 1)
	pos := tr.Len()
	g.Open()
	if g2.Arrived(SyncTimeout) {
		tr.Await(pos, SyncTimeout, func(e vtrace.Event) bool { return e.Ev == "ReconNewStream" && e.Node == 1 && e.Bool("ok") })
		time.Sleep(5 * time.Millisecond)
	}
	g2.Open()
	// wait for the handler of the last call (or give up: the calls may all have failed)
	last := rest[len(rest)-1]
	tr.Await(from, QuietT, func(e vtrace.Event) bool { return e.Ev == "HStart" && e.Tok == last.tok })
	time.Sleep(100 * time.Millisecond)
	_ = first
	return nil
}

// C03 with a full send buffer: the sender is held in a write, the buffer (2) is
// filled by asynchronous calls, then four calls of the kind under test are
// invoked one after the other from one goroutine - each only after the previous
// invocation has returned.  An invocation that blocks because the buffer is full
// is let through by releasing the sender.  Whatever the kind (in particular
// one-way calls without send-waiting, whose invocations return at once), the
// server must start the handlers in the order of the invocations.
func scenFifoFullBuffer(tr *vtrace.Tracer, kind string) error {
	l, err := newLife(tr, EnvOpts{Nodes: 1, SendBuf: 2, MgrOpts: []gorums.ManagerOption{gorums.WithBackoff(fastBackoff)}})
	if err != nil {
		return err
	}
	defer l.finish()
	w := l.call("Rpc", 1, false, false)
	l.wait(w, SyncTimeout)
	g := l.gate("SendWait", 1)
	opened := false
	open := func() {
		if !opened {
			opened = true
			g.Open()
		}
	}
	defer open()
	from := tr.Len()
	returned := func(c *lifeCall, d time.Duration) bool {
		return tr.Await(from, d, func(e vtrace.Event) bool { return e.Ev == "StubRet" && e.Tok == c.tok }) >= 0
	}
	first := l.call("Async", 1, false, false)
	if !returned(first, SyncTimeout) || !g.Arrived(SyncTimeout) {
		return fmt.Errorf("sender did not reach SendWait")
	}
	for i := 0; i < 2; i++ {
		if c := l.call("Async", 1, false, false); !returned(c, SyncTimeout) {
			return fmt.Errorf("the send buffer did not take request %d", i)
		}
	}
	// the next call's hand-off to the queue is held at its gate
	want := l.e.PeekTok() + 1
	g2 := l.tr.NewGate(func(e vtrace.Event) bool { return e.Ev == "HandOffWait" && e.Node == 1 && e.Tok == want })
	defer g2.Open()
	var last *lifeCall
	c5 := l.call(kind, 1, false, false)
	if !g2.Arrived(SyncTimeout) {
		return fmt.Errorf("the call did not reach its hand-off")
	}
	if returned(c5, 30*time.Millisecond) {
		// the invocation has returned although its request has not been handed to the node's
		// queue: let the sender make room, invoke the next call (it finds room), and only then
		// let the first request through
		open()
		tr.Await(from, SyncTimeout, func(e vtrace.Event) bool { return e.Ev == "Dequeue" && e.Node == 1 && e.Tok > first.tok+1 })
		c6 := l.call(kind, 1, false, false)
		returned(c6, QuietT)
		last = c6
		g2.Open()
		tr.Await(from, QuietT, func(e vtrace.Event) bool { return e.Ev == "HStart" && e.Tok == c5.tok })
	} else {
		g2.Open()
		if !returned(c5, 30*time.Millisecond) {
			open()
			returned(c5, QuietT)
		}
		last = c5
	}
	for i := 0; i < 3; i++ {
		c := l.call(kind, 1, false, false)
		if !returned(c, 30*time.Millisecond) {
			// the invocation waits for room in the buffer (or for its reply): let the sender go on
			open()
			if !returned(c, QuietT) {
				break
			}
		}
		last = c
	}
	open()
	if last != nil {
		tr.Await(from, QuietT, func(e vtrace.Event) bool { return e.Ev == "HStart" && e.Tok == last.tok })
	}
	time.Sleep(100 * time.Millisecond)
	return nil
}

// C18: the node dies after the sender's health check has passed, so SendMsg
// itself fails; the call's context lives on.  Whatever way the call ends, no
// per-call goroutine (cancellation watcher) and no router may be left.
func scenSendFailsAfterCheck(tr *vtrace.Tracer, kind string) error {
	l, err := newLife(tr, EnvOpts{Nodes: 1, MgrOpts: []gorums.ManagerOption{gorums.WithBackoff(fastBackoff)}})
	if err != nil {
		return err
	}
	defer l.finish()
	w := l.call("Rpc", 1, false, false)
	l.wait(w, SyncTimeout)
	for round := 0; round < 2; round++ {
		g := l.gate("SendWait", 1)
		from := tr.Len()
		b := l.call(kind, 1, false, false)
		l.mustServe(b)
		if !g.Arrived(SyncTimeout) {
			g.Open()
			return fmt.Errorf("sender did not reach SendWait")
		}
		l.e.Server(1).Stop()
		// wait until the client has noticed (the receiver's read fails)
		l.awaitEv(from, SyncTimeout, "RecvErr", 1)
		g.Open()
		l.wait(b, QuietT)
		if err := l.e.Server(1).Start(); err != nil {
			return err
		}
		for i := 0; i < 300; i++ {
			if gorums.VerifRedialNow(l.e.Node(1).RawNode) {
				break
			}
			time.Sleep(10 * time.Millisecond)
		}
		for i := 0; i < 20; i++ {
			pos := tr.Len()
			y := l.call("Rpc", 1, false, false)
			l.wait(y, SyncTimeout)
			if l.awaitEv(pos, 0, "HStart", 1) {
				break
			}
			time.Sleep(30 * time.Millisecond)
		}
	}
	for n := 1; n <= 1; n++ {
		tr.Emit("Routers", uint32(n), 0, "count", gorums.VerifRouterCount(l.e.Node(n).RawNode))
	}
	l.quiescent()
	return nil
}

// C10: a node crashes and comes back; the next call's reply must not wait for
// the receiver's back-off timer (configured far beyond the quiescence period).
func scenRestart(tr *vtrace.Tracer, kind string) error {
	l, err := newLife(tr, EnvOpts{Nodes: 1, MgrOpts: []gorums.ManagerOption{gorums.WithBackoff(slowBackoff)},
		SrvOpts: nil})
	if err != nil {
		return err
	}
	defer l.finish()
	a := l.call("Rpc", 1, false, false)
	if !l.wait(a, SyncTimeout) {
		return fmt.Errorf("first call did not complete")
	}
	from := tr.Len()
	l.e.Server(1).Stop()
	if !l.awaitEv(from, SyncTimeout, "ReconSleep", 1) {
		return fmt.Errorf("receiver did not start reconnecting")
	}
	if err := l.e.Server(1).Start(); err != nil {
		return err
	}
	// gRPC's own redial uses the same back-off configuration: let its timer fire
	// now (environment) and wait until the transport is ready again; the
	// receiver goroutine keeps sleeping in its own back-off
	ready := false
	for i := 0; i < 300 && !ready; i++ {
		ready = gorums.VerifRedialNow(l.e.Node(1).RawNode)
		time.Sleep(10 * time.Millisecond)
	}
	if !ready {
		return fmt.Errorf("transport did not become ready")
	}
	p := l.call(kind, 1, true, false)
	l.wait(p, QuietT)
	l.quiescent()
	return nil
}

// C10: the receiver's reconnect attempt has failed and it is about to sleep in
// its back-off when the server comes back and the sender re-creates the stream
// for a new call.  The wake-up must not be lost: the reply on the new stream
// must be read at once, not when the back-off timer fires.
func scenWakeBeforeSleep(tr *vtrace.Tracer, kind string) error {
	l, err := newLife(tr, EnvOpts{Nodes: 1, MgrOpts: []gorums.ManagerOption{gorums.WithBackoff(slowBackoff)}})
	if err != nil {
		return err
	}
	defer l.finish()
	a := l.call("Rpc", 1, false, false)
	if !l.wait(a, SyncTimeout) {
		return fmt.Errorf("first call did not complete")
	}
	// hold the receiver (who < 0) after its failed attempt, before the back-off
	g := tr.NewGate(func(e vtrace.Event) bool { return e.Ev == "ReconBackoffWait" && e.Node == 1 && e.Int("who") < 0 })
	l.e.Server(1).Stop()
	if !g.Arrived(SyncTimeout) {
		g.Open()
		return fmt.Errorf("receiver did not reach its back-off")
	}
	if err := l.e.Server(1).Start(); err != nil {
		g.Open()
		return err
	}
	ready := false
	for i := 0; i < 300 && !ready; i++ {
		ready = gorums.VerifRedialNow(l.e.Node(1).RawNode)
		time.Sleep(10 * time.Millisecond)
	}
	if !ready {
		g.Open()
		return fmt.Errorf("transport did not become ready")
	}
	// the sender re-creates the stream for the probe call and leaves the wake-up
	from := tr.Len()
	p := l.call(kind, 1, true, false)
	recreated := tr.Await(from, SyncTimeout, func(e vtrace.Event) bool {
		return e.Ev == "ReconNewStream" && e.Node == 1 && e.Bool("ok") && e.Int("who") > 0
	}) >= 0
	time.Sleep(5 * time.Millisecond)
	g.Open()
	if !recreated {
		return fmt.Errorf("the sender did not re-create the stream")
	}
	l.wait(p, QuietT)
	l.quiescent()
	return nil
}

// C10: a reconnect attempt fails (the server is still down) while the receiver
// goroutine is between two reads; the receiver goes on, the server comes back
// and the node must be usable again.
func scenFailedReconnectBetweenReads(tr *vtrace.Tracer, kind string) error {
	l, err := newLife(tr, EnvOpts{Nodes: 1, MgrOpts: []gorums.ManagerOption{gorums.WithBackoff(fastBackoff)}})
	if err != nil {
		return err
	}
	defer l.finish()
	// park the receiver between two reads
	gr := l.gate("RcvLoopEnd", 1)
	a := l.call("Rpc", 1, false, false)
	if !gr.Arrived(SyncTimeout) {
		gr.Open()
		return fmt.Errorf("receiver did not reach the end of its loop")
	}
	l.wait(a, SyncTimeout)
	l.e.Server(1).Stop()
	// the sender notices the broken stream and its single reconnect attempt fails
	from := tr.Len()
	failed := false
	for i := 0; i < 20 && !failed; i++ {
		x := l.call("Rpc", 1, false, false)
		l.wait(x, 100*time.Millisecond)
		failed = tr.Await(from, 50*time.Millisecond, func(e vtrace.Event) bool {
			return e.Ev == "ReconNewStream" && e.Node == 1 && !e.Bool("ok")
		}) >= 0
	}
	if !failed {
		gr.Open()
		return fmt.Errorf("no failed reconnect attempt")
	}
	gr.Open() // the receiver goes on to its next read
	time.Sleep(50 * time.Millisecond)
	if err := l.e.Server(1).Start(); err != nil {
		return err
	}
	ready := false
	for i := 0; i < 300 && !ready; i++ {
		ready = gorums.VerifRedialNow(l.e.Node(1).RawNode)
		time.Sleep(10 * time.Millisecond)
	}
	if !ready {
		return fmt.Errorf("transport did not become ready")
	}
	p := l.call(kind, 1, true, false)
	l.wait(p, QuietT)
	l.quiescent()
	return nil
}

// C10: every new connection carries the manager's general and per-node
// metadata and triggers the server's connect callback once - also after a
// crash/restart and for a node that was down at creation.
func scenMetadata(tr *vtrace.Tracer, kind string) error {
	l, err := newLife(tr, EnvOpts{Nodes: 2, Down: map[int]bool{2: true}, MgrOpts: []gorums.ManagerOption{
		gorums.WithBackoff(fastBackoff),
		gorums.WithMetadata(metadata.Pairs("v-general", "g")),
		gorums.WithPerNodeMetadata(func(id uint32) metadata.MD { return metadata.Pairs("v-node", fmt.Sprint(id)) }),
	}})
	if err != nil {
		return err
	}
	defer l.finish()
	tr.Emit("MetadataExpected", 0, 0)
	a := l.call(kind, 1, false, false)
	l.wait(a, SyncTimeout)
	// (a call without send-waiting returns before the server has seen the connection)
	if !l.awaitEv(0, SyncTimeout, "HAccept", 1) {
		return fmt.Errorf("first connection was not accepted")
	}
	// crash and restart node 1
	from := tr.Len()
	l.e.Server(1).Stop()
	l.awaitEv(from, SyncTimeout, "ReconSleep", 1)
	if err := l.e.Server(1).Start(); err != nil {
		return err
	}
	// node 2 was down at creation: start it now
	if err := l.e.Server(2).Start(); err != nil {
		return err
	}
	for i := 0; i < 300; i++ {
		if gorums.VerifRedialNow(l.e.Node(1).RawNode) {
			break
		}
		time.Sleep(10 * time.Millisecond)
	}
	time.Sleep(100 * time.Millisecond)
	for i := 0; i < 20; i++ {
		pos := tr.Len()
		y := l.call("QC", 2, false, false)
		l.wait(y, SyncTimeout)
		n := 0
		for _, ev := range tr.Events(pos) {
			if ev.Ev == "HStart" && ev.Tok == y.tok {
				n++
			}
		}
		if n == 2 {
			break
		}
		time.Sleep(50 * time.Millisecond)
	}
	p := l.call("QC", 2, true, false)
	l.wait(p, QuietT)
	tr.Emit("MetadataDone", 0, 0)
	l.quiescent()
	return nil
}

// C10: a node that is down when the manager is created is used once it listens.
func scenDownAtCreation(tr *vtrace.Tracer, kind string) error {
	l, err := newLife(tr, EnvOpts{Nodes: 2, Down: map[int]bool{1: true}, MgrOpts: []gorums.ManagerOption{gorums.WithBackoff(fastBackoff)}})
	if err != nil {
		return err
	}
	defer l.finish()
	x := l.call("Rpc", 2, false, false)
	l.wait(x, SyncTimeout)
	if err := l.e.Server(1).Start(); err != nil {
		return err
	}
	time.Sleep(100 * time.Millisecond)
	// first calls may still fail while the dial is in progress
	for i := 0; i < 20; i++ {
		from := tr.Len()
		y := l.call("Rpc", 2, false, false)
		l.wait(y, SyncTimeout)
		if l.awaitEv(from, 0, "HStart", 1) {
			break
		}
		time.Sleep(50 * time.Millisecond)
	}
	p := l.call(kind, 2, true, false)
	l.wait(p, QuietT)
	l.quiescent()
	return nil
}

// C12: Close while a call awaits replies; afterwards calls fail fast; Close is idempotent.
func scenCloseWhileAwaiting(tr *vtrace.Tracer, kind string) error {
	l, err := newLife(tr, EnvOpts{Nodes: 2})
	if err != nil {
		return err
	}
	defer l.finish()
	from := tr.Len()
	b := l.call(kind, 2, false, true)
	l.awaitEv(from, SyncTimeout, "HStart", 1)
	tr.Emit("CloseCall", 0, 0)
	go l.e.Mgr.Close()
	l.e.Mgr.Close()
	tr.Emit("CloseReturned", 0, 0)
	l.wait(b, QuietT)
	c := l.call(kind, 2, false, false)
	l.wait(c, QuietT)
	l.quiescent()
	return nil
}

// C12: a non-zero send buffer: calls issued after Close must not be stranded in the buffer.
func scenCloseBuffered(tr *vtrace.Tracer, kind string) error {
	l, err := newLife(tr, EnvOpts{Nodes: 2, SendBuf: 4})
	if err != nil {
		return err
	}
	defer l.finish()
	a := l.call("Rpc", 2, false, false)
	l.wait(a, SyncTimeout)
	tr.Emit("CloseCall", 0, 0)
	l.e.Mgr.Close()
	tr.Emit("CloseReturned", 0, 0)
	var cs []*lifeCall
	for i := 0; i < 6; i++ {
		cs = append(cs, l.call(kind, 2, false, false))
	}
	for _, c := range cs {
		l.wait(c, QuietT/2)
	}
	l.quiescent()
	return nil
}

// C12: calls issued while the sender of a closed node is on its way out (it has
// drained the send queue and has not returned yet; the receiver is gone): with
// a send buffer a request can still slip into the queue.  Nobody may be left
// waiting.
func scenCloseSenderExitWindow(tr *vtrace.Tracer, kind string) error {
	l, err := newLife(tr, EnvOpts{Nodes: 1, SendBuf: 16})
	if err != nil {
		return err
	}
	defer l.finish()
	a := l.call("Rpc", 1, false, false)
	l.wait(a, SyncTimeout)
	h := tr.NewHold(func(e vtrace.Event) bool { return e.Ev == "SenderExit" && e.Node == 1 })
	defer h.Open()
	from := tr.Len()
	tr.Emit("CloseCall", 0, 0)
	l.e.Mgr.Close()
	tr.Emit("CloseReturned", 0, 0)
	if !h.Arrived(SyncTimeout) {
		return fmt.Errorf("sender did not reach its exit")
	}
	l.awaitEv(from, SyncTimeout, "ReceiverExit", 1)
	var cs []*lifeCall
	for i := 0; i < 12; i++ {
		cs = append(cs, l.call(kind, 1, false, false))
	}
	for _, c := range cs {
		l.wait(c, QuietT/4)
	}
	h.Open()
	for _, c := range cs {
		l.wait(c, QuietT/4)
	}
	l.quiescent()
	return nil
}

// C12: Close strikes between the receiver routing a reply and its end-of-loop
// check, while another call still awaits its reply.
func scenCloseAtLoopEnd(tr *vtrace.Tracer, kind string) error {
	l, err := newLife(tr, EnvOpts{Nodes: 1})
	if err != nil {
		return err
	}
	defer l.finish()
	from := tr.Len()
	a := l.call(kind, 1, false, true) // awaits a silent handler
	l.awaitEv(from, SyncTimeout, "HStart", 1)
	g := l.gate("RcvLoopEnd", 1)
	b := l.call("Rpc", 1, false, false)
	if !g.Arrived(SyncTimeout) {
		g.Open()
		return fmt.Errorf("receiver did not reach the end of its loop")
	}
	l.wait(b, SyncTimeout)
	tr.Emit("CloseCall", 0, 0)
	l.e.Mgr.Close()
	tr.Emit("CloseReturned", 0, 0)
	g.Open()
	l.wait(a, QuietT)
	l.quiescent()
	return nil
}

// C12: Close with a node that was down when the manager was created and has
// never been connected (its channel and sender goroutine exist, its connection
// does not); afterwards the node comes up: calls must still fail fast.
func scenCloseNeverConnected(tr *vtrace.Tracer, kind string) error {
	l, err := newLife(tr, EnvOpts{Nodes: 2, Down: map[int]bool{2: true}, DialTimeout: 100 * time.Millisecond,
		MgrOpts: []gorums.ManagerOption{gorums.WithBackoff(fastBackoff)}})
	if err != nil {
		return err
	}
	defer l.finish()
	a := l.call(kind, 2, false, false)
	l.wait(a, SyncTimeout)
	tr.Emit("CloseCall", 0, 0)
	l.e.Mgr.Close()
	tr.Emit("CloseReturned", 0, 0)
	if err := l.e.Server(2).Start(); err != nil {
		return err
	}
	time.Sleep(20 * time.Millisecond)
	c := l.call(kind, 2, false, false)
	l.wait(c, QuietT)
	l.quiescent()
	return nil
}

// C09: calls whose context has already ended when they are issued (half of
// them reach the send queue and are skipped by the sender) must not disable the node.
func scenCtxBeforeSend(tr *vtrace.Tracer, kind string) error {
	l, err := newLife(tr, EnvOpts{Nodes: 2})
	if err != nil {
		return err
	}
	defer l.finish()
	w := l.call("Rpc", 2, false, false)
	l.wait(w, SyncTimeout)
	for i := 0; i < 12; i++ {
		c := l.call(kind, 2, false, false)
		c.ctx.End("canceled") // may strike before, during or after the hand-off
		l.tr.Emit("CtxEnd", 0, c.tok, "cause", "canceled")
		l.wait(c, QuietT)
	}
	for i := 0; i < 12; i++ {
		x := l.callPre(kind, 2)
		l.wait(x, QuietT)
	}
	time.Sleep(20 * time.Millisecond)
	p := l.call("Rpc", 2, true, false)
	l.wait(p, QuietT)
	q := l.call("QC", 2, true, false)
	l.wait(q, QuietT)
	l.quiescent()
	return nil
}

// C12: Close on a manager created with WithNoConnect.
func scenCloseNoConnect(tr *vtrace.Tracer, kind string) error {
	mgr := puppet.NewManager(gorums.WithNoConnect())
	_, err := mgr.NewConfiguration(NewQSpec(tr), gorums.WithNodeMap(map[string]uint32{"127.0.0.1:9081": 1}))
	if err != nil {
		return err
	}
	tr.Emit("CloseCall", 0, 0)
	panicked := false
	func() {
		defer func() {
			if r := recover(); r != nil {
				panicked = true
			}
		}()
		mgr.Close()
		mgr.Close()
	}()
	tr.Emit("CloseReturned", 0, 0, "panicked", panicked)
	tr.Emit("Quiescent", 0, 0, "libgoroutines", LibGoroutines(), "callgoroutines", CallGoroutines())
	return nil
}

// LifeScenarios lists the scenarios per property.
var LifeScenarios = map[string][]LifeScenario{
	"C08": {
		{Name: "ctx-while-queued", Run: scenCtxWhileQueued},
		{Name: "ctx-while-buffered", Run: scenCtxWhileBuffered},
		{Name: "ctx-while-written", Run: scenCtxWhileWritten},
		{Name: "ctx-while-awaiting", Run: scenCtxWhileAwaiting},
		{Name: "ctx-while-stream-floods", Kind: "CorrStream", Run: scenCtxWhileStreamFloods},
	},
	"C09": {
		{Name: "stale-broken-read", Run: scenStaleBrokenRead},
		{Name: "stream-outruns-call", Kind: "CorrStream", Run: scenStreamOutrunsCall},
		{Name: "stream-replaced", Run: scenStreamReplaced},
		{Name: "stream-ctx-while-queued-full", Kind: "CorrStream", Run: scenStreamCtxWhileQueuedFull},
		{Name: "stream-dies-unseen", Run: scenStreamDiesUnseen},
		{Name: "ctx-before-send", Run: scenCtxBeforeSend},
		{Name: "ctx-while-written", Run: scenCtxWhileWritten},
	},
	"C03": {
		{Name: "fifo-across-stream-break", Run: scenFifoAcrossStreamBreak},
		{Name: "fifo-full-buffer", Run: scenFifoFullBuffer},
	},
	"C18": {
		{Name: "send-fails-after-check", Run: scenSendFailsAfterCheck},
		{Name: "ctx-while-written", Run: scenCtxWhileWritten},
		{Name: "stream-replaced", Run: scenStreamReplaced},
	},
	"C10": {
		{Name: "restart", Run: scenRestart},
		{Name: "down-at-creation", Run: scenDownAtCreation},
		{Name: "failed-reconnect-between-reads", Run: scenFailedReconnectBetweenReads},
		{Name: "wake-before-sleep", Run: scenWakeBeforeSleep},
		{Name: "metadata", Run: scenMetadata},
	},
	"C12": {
		{Name: "close-while-awaiting", Run: scenCloseWhileAwaiting},
		{Name: "close-buffered", Run: scenCloseBuffered},
		{Name: "close-at-loop-end", Run: scenCloseAtLoopEnd},
		{Name: "close-sender-exit-window", Run: scenCloseSenderExitWindow},
		{Name: "close-noconnect", Kind: "Rpc", Run: scenCloseNoConnect},
		{Name: "close-never-connected", Run: scenCloseNeverConnected},
	},
}
