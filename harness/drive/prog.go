package drive

import (
	"bytes"
	"fmt"
	"runtime"
	"sort"
	"sync/atomic"
	"time"

	"github.com/relab/gorums"

	"verif/harness/gen/puppet"
	"verif/harness/puppetsrv"
	"verif/harness/vtrace"
)

// PCall is one call of a program.
type PCall struct {
	M   string `json:"m"`   // Puppet method
	Nsw bool   `json:"nsw"` // no send waiting (one-way calls)
	Beh string `json:"beh"` // per node handler behaviour, one letter per node
	Mgr int    `json:"mgr"` // 0: first manager, 1: second manager
	K   int    `json:"k"`   // quorum threshold
	// Cancel: "" (never), "issued" (end the context once the call is issued)
	Cancel string `json:"cancel"`
}

// Program is a sequence of calls issued in order by one goroutine (each call
// is invoked after the previous invocation returned, where that invocation
// can return before the stragglers are released).
type Program struct {
	Calls []PCall `json:"calls"`
	Rel   string  `json:"rel"` // order in which stragglers are released: fifo, lifo
}

// Handler behaviours (letters of PCall.Beh):
//
//	F  release on entry, reply at once
//	L  no early release, reply at once (implicit release on return)
//	S  release on entry, reply when triggered (straggler)
//	H  no release, reply when triggered (holds later requests of its connection)
//	R  release three times on entry, reply when triggered
//	G  release from three helper goroutines concurrently, reply when triggered
//	E  release on entry, fail at once
//	N  never release, return only at the end of the program
var immediate = map[byte]bool{'F': true, 'L': true, 'E': true}
var holds = map[byte]bool{'H': true, 'N': true, 'I': true}

var methodKind = map[string]string{
	"Rpc": "rpc", "QC": "qc", "QCPerNode": "qc", "QCCustom": "qc", "QCCombo": "qc",
	"Async": "async", "AsyncPerNode": "async", "AsyncCustom": "async",
	"Corr": "corr", "CorrPerNode": "corr", "CorrCustom": "corr", "CorrStream": "corrstream", "CorrStreamCustom": "corrstream",
	"Mcast": "mcast", "McastPerNode": "mcast", "Ucast": "ucast",
}

// ObsWindow is the time the driver leaves for a premature handler start to
// show up while an earlier handler of the connection is unreleased.
var ObsWindow = 20 * time.Millisecond

type progCall struct {
	tok     uint64
	pc      PCall
	kind    string
	targets []int
	ctx     *ManualCtx
	obj     *callObj
	done    chan struct{}
	pending []int // nodes whose handler still waits for its trigger
}

func (r *Runner) finalCmd(kind string) []puppetsrv.Cmd {
	switch kind {
	case "corrstream":
		return []puppetsrv.Cmd{{Kind: "item", Val: 1}, {Kind: "end"}}
	case "mcast", "ucast":
		return []puppetsrv.Cmd{{Kind: "done"}}
	}
	return []puppetsrv.Cmd{{Kind: "reply", Val: 1}}
}

// LastProgramClean reports whether the last program ended with every
// invocation and handler returned, empty router tables and no per-call goroutine.
var LastProgramClean = true

// RunProgram executes a program and returns the call tokens it used.
func (r *Runner) RunProgram(p Program) []uint64 {
	e := r.E
	tr := e.Tr
	nn := len(e.Servers)
	blocked := map[[2]int]bool{} // (mgr, node) has an unreleased handler
	var calls []*progCall
	var toks []uint64
	progFrom := tr.Len()
	for _, pc := range p.Calls {
		c := &progCall{tok: e.NextTok(), pc: pc, kind: methodKind[pc.M], done: make(chan struct{}), obj: &callObj{}}
		toks = append(toks, c.tok)
		calls = append(calls, c)
		mgrCfgs, node := e.Cfgs, e.Node(1)
		if pc.Mgr == 1 {
			mgrCfgs = e.Cfgs2
			node = mgrCfgs[nn].Nodes()[0]
		}
		cfg := mgrCfgs[nn]
		if c.kind == "rpc" || c.kind == "ucast" {
			c.targets = []int{1}
		} else {
			for n := 1; n <= nn; n++ {
				c.targets = append(c.targets, n)
			}
		}
		k := pc.K
		if k == 0 {
			k = 2
		}
		req := &puppet.Req{Call: c.tok}
		lv := "none"
		if c.kind == "corr" || c.kind == "corrstream" {
			lv = "count"
		}
		e.QS.Set(c.tok, &QFParams{QF: "thr", K: k, Lv: lv, Orig: req})
		c.ctx = NewManualCtx(c.tok)
		// script the handlers
		prompt := 0
		anyBlocked := false
		for _, n := range c.targets {
			b := pc.Beh[n-1]
			srv := e.Server(n)
			ch := srv.Script(c.tok)
			switch b {
			case 'F':
				for _, cmd := range r.finalCmd(c.kind) {
					ch <- cmd
				}
			case 'L':
				srv.SetHold(c.tok, true)
				for _, cmd := range r.finalCmd(c.kind) {
					ch <- cmd
				}
			case 'E':
				ch <- puppetsrv.Cmd{Kind: "fail", Code: 13, Msg: fmt.Sprintf("fail-%d-%d", c.tok, n)}
			case 'S':
				c.pending = append(c.pending, n)
			case 'H', 'N':
				srv.SetHold(c.tok, true)
				c.pending = append(c.pending, n)
			case 'I':
				// holds the connection and, for a streaming method, sends three items back to
				// back before it waits (the server's sender goroutine is busy with the first
				// when the second is handed over)
				srv.SetHold(c.tok, true)
				if c.kind == "corrstream" {
					for i := 0; i < 3; i++ {
						ch <- puppetsrv.Cmd{Kind: "item", Val: 1}
					}
				}
				c.pending = append(c.pending, n)
			case 'R':
				srv.SetHold(c.tok, true)
				ch <- puppetsrv.Cmd{Kind: "release3"}
				c.pending = append(c.pending, n)
			case 'G':
				srv.SetHold(c.tok, true)
				ch <- puppetsrv.Cmd{Kind: "releasego"}
				c.pending = append(c.pending, n)
			}
			key := [2]int{pc.Mgr, n}
			if blocked[key] {
				anyBlocked = true
			} else if immediate[b] && b != 'E' {
				prompt++
			}
		}
		// does the invocation return without any straggler being released?
		returns := false
		switch c.kind {
		case "async", "corr", "corrstream":
			returns = true
		case "mcast", "ucast":
			returns = true // one-way calls never wait for handlers
		case "rpc":
			returns = !blocked[[2]int{pc.Mgr, 1}] && immediate[pc.Beh[0]]
		case "qc":
			returns = prompt >= k
		}
		pos := tr.Len()
		tr.Emit("StubCall", 0, c.tok, "method", pc.M, "mgr", pc.Mgr)
		go func() {
			defer close(c.done)
			r.Invoke(c.tok, pc.M, c.kind, cfg, node, func(q *puppet.Req, _ uint32) *puppet.Req { return q }, pc.Nsw, c.ctx, req, c.obj)
		}()
		if returns {
			select {
			case <-c.done:
			case <-time.After(SyncTimeout):
				tr.Emit("Quiescent", 0, c.tok, "why", "stub did not return")
			}
		} else if r.awaitTok(c.tok, pos, isEv("CallIssued")) < 0 {
			tr.Emit("Quiescent", 0, c.tok, "why", "call not issued")
		}
		if pc.Cancel == "issued" {
			tr.Emit("CtxEnd", 0, c.tok, "cause", "canceled")
			c.ctx.End("canceled")
		}
		if anyBlocked {
			time.Sleep(ObsWindow)
		}
		for _, n := range c.targets {
			if holds[pc.Beh[n-1]] {
				blocked[[2]int{pc.Mgr, n}] = true
			}
		}
	}
	// release the stragglers
	order := make([]*progCall, len(calls))
	copy(order, calls)
	if p.Rel == "lifo" {
		for i, j := 0, len(order)-1; i < j; i, j = i+1, j-1 {
			order[i], order[j] = order[j], order[i]
		}
	}
	tr.Emit("ReleaseAll", 0, 0)
	for _, c := range order {
		for _, n := range c.pending {
			if p.Rel == "staged" && (c.pc.Beh[n-1] == 'R' || c.pc.Beh[n-1] == 'G') {
				// an explicit repeated release, after later handlers have started
				e.Server(n).Script(c.tok) <- puppetsrv.Cmd{Kind: "release3"}
			}
			for _, cmd := range r.finalCmd(c.kind) {
				e.Server(n).Script(c.tok) <- cmd
			}
		}
		if p.Rel == "staged" && len(c.pending) > 0 {
			// leave time for a premature start of a later handler to show up
			time.Sleep(ObsWindow)
		}
	}
	// wait until every invocation returned and every started handler returned
	clean := true
	for _, c := range calls {
		select {
		case <-c.done:
		case <-time.After(SyncTimeout):
			clean = false
		}
	}
	mine := map[uint64]bool{}
	for _, t := range toks {
		mine[t] = true
	}
	// without cancellations (and so without connection resets) every targeted
	// server handles every call
	want := 0
	for _, c := range calls {
		want += len(c.targets)
	}
	for _, c := range calls {
		if c.pc.Cancel != "" {
			want = 0
		}
	}
	starts, returns := 0, 0
	if tr.Await(progFrom, SyncTimeout, func(ev vtrace.Event) bool {
		if mine[ev.Tok] {
			switch ev.Ev {
			case "HStart":
				starts++
			case "HReturn":
				returns++
			}
		}
		return starts == returns && starts >= want
	}) < 0 {
		clean = false
	}
	// late replies of calls that ended early have been routed or dropped by now?
	time.Sleep(200 * time.Microsecond)
	// a stream call whose quorum function has not reported done completes only
	// by its context (by design): end it now that every handler has returned
	for _, c := range calls {
		if c.kind == "corrstream" && c.obj.corr != nil {
			select {
			case <-c.obj.corr.Done():
			case <-time.After(20 * time.Millisecond):
				if c.ctx.Err() == nil {
					tr.Emit("CtxEnd", 0, c.tok, "cause", "canceled")
					c.ctx.End("canceled")
				}
				select {
				case <-c.obj.corr.Done():
				case <-time.After(SyncTimeout):
					clean = false
				}
			}
		}
	}
	// C18: what is left behind once everything has been answered
	// (replies of handlers that have just returned may still be on their way:
	// wait, bounded, until the tables are empty before taking the snapshot)
	cg := r.awaitNoResidue(1500 * time.Millisecond)
	for n := 1; n <= nn; n++ {
		tr.Emit("Routers", uint32(n), 0, "count", gorums.VerifRouterCount(e.Node(n).RawNode))
	}
	tr.Emit("ProgEnd", 0, 0, "clean", clean, "callgoroutines", cg)
	LastProgramClean = clean && cg == 0
	for n := 1; n <= nn; n++ {
		if gorums.VerifRouterCount(e.Node(n).RawNode) != 0 {
			LastProgramClean = false
		}
	}
	for _, c := range calls {
		e.QS.Forget(c.tok)
		for _, sv := range e.Servers {
			sv.Forget(c.tok)
		}
	}
	return toks
}

// CallGoroutines counts the goroutines the library started for individual
// calls (asynchronous / correctable collection loops, cancellation watchers).
func CallGoroutines() int {
	buf := make([]byte, 1<<20)
	for {
		n := runtime.Stack(buf, true)
		if n < len(buf) {
			buf = buf[:n]
			break
		}
		buf = make([]byte, 2*len(buf))
	}
	c := 0
	for _, g := range bytes.Split(buf, []byte("\n\n")) {
		if bytes.Contains(g, []byte("handleAsyncCall")) || bytes.Contains(g, []byte("handleCorrectableCall")) ||
			bytes.Contains(g, []byte("(*channel).sendMsg.func")) {
			c++
		}
	}
	return c
}

// FreeCall issues one call of a free (unscheduled) workload and returns its
// token.  cancel: "none", "safe" (end the context after the requests were
// sent and delay has passed), "any" (end it after delay, whatever happens).
func (r *Runner) FreeCall(method string, size, k int, nsw bool, cancel string, delay time.Duration) uint64 {
	e := r.E
	tr := e.Tr
	if atomic.LoadInt32(&r.Stuck) >= 5 {
		// enough evidence; further calls would wait out the same timeouts
		return 0
	}
	tok := e.NextTok()
	kind := methodKind[method]
	req := &puppet.Req{Call: tok}
	lv := "none"
	if kind == "corr" || kind == "corrstream" {
		lv = "count"
	}
	qp := &QFParams{QF: "thr", K: k, Lv: lv, Orig: req}
	if r.QFDelayPct > 0 && int(tok*7919%100) < r.QFDelayPct {
		d := time.Duration(1+tok%3) * time.Millisecond
		qp.Delay = func() { time.Sleep(d) }
	}
	e.QS.Set(tok, qp)
	ctx := NewManualCtx(tok)
	cfg := e.Cfgs[size]
	node := e.Node(1 + int(tok)%len(e.Servers))
	targets := size
	if kind == "rpc" || kind == "ucast" {
		targets = 1
	}
	obj := &callObj{}
	from := tr.Len()
	tr.Emit("StubCall", 0, tok, "method", method, "mgr", 0, "size", size, "k", k)
	done := make(chan struct{})
	go func() {
		defer close(done)
		r.Invoke(tok, method, kind, cfg, node, func(q *puppet.Req, _ uint32) *puppet.Req { return q }, nsw && (kind == "mcast" || kind == "ucast"), ctx, req, obj)
	}()
	if kind == "corrstream" && cancel == "none" {
		// a stream call whose quorum function never reports done completes only
		// by its context (by design): always end it eventually
		cancel = "safe"
		delay += 20 * time.Millisecond
	}
	if cancel != "none" {
		go func() {
			if cancel == "safe" {
				settled := 0
				tr.Await(from, SyncTimeout, func(ev vtrace.Event) bool {
					if ev.Tok == tok {
						switch ev.Ev {
						case "SendDone", "CtxSkip", "BrokenReply", "ClosedReply", "CtxReply":
							settled++
						}
					}
					return settled >= targets
				})
			}
			time.Sleep(delay)
			tr.Emit("CtxEnd", 0, tok, "cause", "canceled")
			ctx.End("canceled")
		}()
	}
	select {
	case <-done:
	case <-time.After(SyncTimeout + delay):
		// stuck, unless it is only slow: the verdict must persist
		select {
		case <-done:
			tr.Emit("Slow", 0, tok, "what", "stub returned only within the persistence period")
		case <-time.After(PersistT):
			atomic.AddInt32(&r.Stuck, 1)
			tr.Emit("Quiescent", 0, tok, "why", "stub did not return")
		}
	}
	// asynchronous calls: wait for the future / correctable to complete, so that
	// a goroutine's calls follow each other like a user's would
	switch {
	case obj.asyncRep != nil:
		r.getOrStuck(tok, func() { obj.asyncRep.Get() })
	case obj.asyncAgg != nil:
		r.getOrStuck(tok, func() { obj.asyncAgg.Get() })
	case obj.corr != nil:
		select {
		case <-obj.corr.Done():
		case <-time.After(SyncTimeout + delay):
			select {
			case <-obj.corr.Done():
				tr.Emit("Slow", 0, tok, "what", "correctable completed only within the persistence period")
			case <-time.After(PersistT):
				atomic.AddInt32(&r.Stuck, 1)
				tr.Emit("Quiescent", 0, tok, "why", "correctable did not complete")
			}
		}
	}
	return tok
}

// Settle waits until every handler of the calls has returned and the router
// tables are empty (bounded), then records the residue snapshot and ProgEnd.
func (r *Runner) Settle(toks []uint64) bool {
	e := r.E
	tr := e.Tr
	nn := len(e.Servers)
	mine := map[uint64]bool{}
	for _, t := range toks {
		mine[t] = true
	}
	clean := true
	starts, returns := 0, 0
	var missing []string
	{
		// Await scanned everything recorded so far; poll until starts == returns.
		// A handler that has not returned is reported only if it stays that way for
		// PersistT beyond the normal bound: a verdict must not depend on scheduling.
		deadline := time.Now().Add(3 * SyncTimeout)
		slow := false
		for {
			starts, returns = 0, 0
			open := map[string]int{}
			for _, ev := range tr.Events(0) {
				if mine[ev.Tok] {
					switch ev.Ev {
					case "HStart":
						starts++
						open[fmt.Sprintf("node %d call %d", ev.Node, ev.Tok)]++
					case "HReturn":
						returns++
						open[fmt.Sprintf("node %d call %d", ev.Node, ev.Tok)]--
					}
				}
			}
			if starts == returns {
				break
			}
			if time.Now().After(deadline) {
				if !slow {
					slow = true
					deadline = time.Now().Add(PersistT)
					continue
				}
				clean = false
				for k, n := range open {
					if n != 0 {
						missing = append(missing, k)
					}
				}
				sort.Strings(missing)
				break
			}
			time.Sleep(5 * time.Millisecond)
		}
		if slow && clean {
			tr.Emit("Slow", 0, 0, "what", "handlers returned only within the persistence period")
		}
	}
	cg := r.awaitNoResidue(3 * time.Second)
	if cg != 0 || r.residue() {
		// a leftover is reported only if it persists
		if cg = r.awaitNoResidue(PersistT); cg == 0 && !r.residue() {
			tr.Emit("Slow", 0, 0, "what", "routers / call goroutines were gone only within the persistence period")
		}
	}
	for n := 1; n <= nn; n++ {
		tr.Emit("Routers", uint32(n), 0, "count", gorums.VerifRouterCount(e.Node(n).RawNode))
	}
	if missing == nil {
		missing = []string{}
	}
	tr.Emit("ProgEnd", 0, 0, "clean", clean, "callgoroutines", cg, "missing", missing)
	return clean
}

// LibGoroutines counts the goroutines running library code of the client
// channels (senders, receivers, watchers, per-call collection loops).
func LibGoroutines() int {
	buf := make([]byte, 1<<20)
	for {
		n := runtime.Stack(buf, true)
		if n < len(buf) {
			buf = buf[:n]
			break
		}
		buf = make([]byte, 2*len(buf))
	}
	c := 0
	for _, g := range bytes.Split(buf, []byte("\n\n")) {
		if bytes.Contains(g, []byte("gorums.(*channel).sender")) || bytes.Contains(g, []byte("gorums.(*channel).receiver")) ||
			bytes.Contains(g, []byte("(*channel).sendMsg.func")) || bytes.Contains(g, []byte("handleAsyncCall")) ||
			bytes.Contains(g, []byte("handleCorrectableCall")) {
			c++
		}
	}
	return c
}

// awaitNoResidue waits, for at most d, until the router tables of all nodes
// are empty and no per-call goroutine is left; it returns the number of
// per-call goroutines found last.
func (r *Runner) awaitNoResidue(d time.Duration) int {
	e := r.E
	deadline := time.Now().Add(d)
	pause := 200 * time.Microsecond
	cg := -1
	for {
		left := 0
		for n := 1; n <= len(e.Servers); n++ {
			if c := gorums.VerifRouterCount(e.Node(n).RawNode); c != 0 {
				left++ // routers left, or the router mutex stays held (c < 0)
			}
		}
		if left == 0 {
			if cg = CallGoroutines(); cg == 0 {
				return 0
			}
		}
		if time.Now().After(deadline) {
			if cg < 0 {
				cg = CallGoroutines()
			}
			return cg
		}
		time.Sleep(pause)
		if pause < 20*time.Millisecond {
			pause *= 2
		}
	}
}

// residue reports whether some node still has a router (or a held router mutex).
func (r *Runner) residue() bool {
	for n := 1; n <= len(r.E.Servers); n++ {
		if gorums.VerifRouterCount(r.E.Node(n).RawNode) != 0 {
			return true
		}
	}
	return false
}

// getOrStuck waits for a future, bounded.
func (r *Runner) getOrStuck(tok uint64, get func()) {
	done := make(chan struct{})
	go func() { get(); close(done) }()
	select {
	case <-done:
	case <-time.After(2 * SyncTimeout):
		select {
		case <-done:
			r.E.Tr.Emit("Slow", 0, tok, "what", "future completed only within the persistence period")
		case <-time.After(PersistT):
			atomic.AddInt32(&r.Stuck, 1)
			r.E.Tr.Emit("Quiescent", 0, tok, "why", "future did not complete")
		}
	}
}
