package drive

import (
	"fmt"
	"time"

	"verif/harness/gen/puppet"
	"verif/harness/puppetsrv"
	"verif/harness/vtrace"
)

// PCall is one call of a program.
type PCall struct {
	M   string `json:"m"`   // Puppet method
	Nsw bool   `json:"nsw"` // no send waiting (one-way calls)
	Beh string `json:"beh"` // per node handler behaviour, one letter per node
	Mgr int    `json:"mgr"` // 0: first manager, 1: second manager
	K   int    `json:"k"`   // quorum threshold
	// Cancel: "" (never), "issued" (end the context once the call is issued)
	Cancel string `json:"cancel"`
}

// Program is a sequence of calls issued in order by one goroutine (each call
// is invoked after the previous invocation returned, where that invocation
// can return before the stragglers are released).
type Program struct {
	Calls []PCall `json:"calls"`
	Rel   string  `json:"rel"` // order in which stragglers are released: fifo, lifo
}

// Handler behaviours (letters of PCall.Beh):
//
//	F  release on entry, reply at once
//	L  no early release, reply at once (implicit release on return)
//	S  release on entry, reply when triggered (straggler)
//	H  no release, reply when triggered (holds later requests of its connection)
//	R  release three times on entry, reply when triggered
//	G  release from three helper goroutines concurrently, reply when triggered
//	E  release on entry, fail at once
//	N  never release, return only at the end of the program
var immediate = map[byte]bool{'F': true, 'L': true, 'E': true}
var holds = map[byte]bool{'H': true, 'N': true}

var methodKind = map[string]string{
	"Rpc": "rpc", "QC": "qc", "QCPerNode": "qc", "QCCustom": "qc", "QCCombo": "qc",
	"Async": "async", "AsyncPerNode": "async", "AsyncCustom": "async",
	"Corr": "corr", "CorrPerNode": "corr", "CorrCustom": "corr", "CorrStream": "corrstream", "CorrStreamCustom": "corrstream",
	"Mcast": "mcast", "McastPerNode": "mcast", "Ucast": "ucast",
}

// ObsWindow is the time the driver leaves for a premature handler start to
// show up while an earlier handler of the connection is unreleased.
var ObsWindow = 20 * time.Millisecond

type progCall struct {
	tok     uint64
	pc      PCall
	kind    string
	targets []int
	ctx     *ManualCtx
	obj     *callObj
	done    chan struct{}
	pending []int // nodes whose handler still waits for its trigger
}

func (r *Runner) finalCmd(kind string) []puppetsrv.Cmd {
	switch kind {
	case "corrstream":
		return []puppetsrv.Cmd{{Kind: "item", Val: 1}, {Kind: "end"}}
	case "mcast", "ucast":
		return []puppetsrv.Cmd{{Kind: "done"}}
	}
	return []puppetsrv.Cmd{{Kind: "reply", Val: 1}}
}

// RunProgram executes a program and returns the call tokens it used.
func (r *Runner) RunProgram(p Program) []uint64 {
	e := r.E
	tr := e.Tr
	nn := len(e.Servers)
	blocked := map[[2]int]bool{} // (mgr, node) has an unreleased handler
	var calls []*progCall
	var toks []uint64
	progFrom := tr.Len()
	for _, pc := range p.Calls {
		c := &progCall{tok: e.NextTok(), pc: pc, kind: methodKind[pc.M], done: make(chan struct{}), obj: &callObj{}}
		toks = append(toks, c.tok)
		calls = append(calls, c)
		mgrCfgs, node := e.Cfgs, e.Node(1)
		if pc.Mgr == 1 {
			mgrCfgs = e.Cfgs2
			node = mgrCfgs[nn].Nodes()[0]
		}
		cfg := mgrCfgs[nn]
		if c.kind == "rpc" || c.kind == "ucast" {
			c.targets = []int{1}
		} else {
			for n := 1; n <= nn; n++ {
				c.targets = append(c.targets, n)
			}
		}
		k := pc.K
		if k == 0 {
			k = 2
		}
		req := &puppet.Req{Call: c.tok}
		lv := "none"
		if c.kind == "corr" || c.kind == "corrstream" {
			lv = "count"
		}
		e.QS.Set(c.tok, &QFParams{QF: "thr", K: k, Lv: lv, Orig: req})
		c.ctx = NewManualCtx(c.tok)
		// script the handlers
		prompt := 0
		anyBlocked := false
		for _, n := range c.targets {
			b := pc.Beh[n-1]
			srv := e.Server(n)
			ch := srv.Script(c.tok)
			switch b {
			case 'F':
				for _, cmd := range r.finalCmd(c.kind) {
					ch <- cmd
				}
			case 'L':
				srv.SetHold(c.tok, true)
				for _, cmd := range r.finalCmd(c.kind) {
					ch <- cmd
				}
			case 'E':
				ch <- puppetsrv.Cmd{Kind: "fail", Code: 13, Msg: fmt.Sprintf("fail-%d-%d", c.tok, n)}
			case 'S':
				c.pending = append(c.pending, n)
			case 'H', 'N':
				srv.SetHold(c.tok, true)
				c.pending = append(c.pending, n)
			case 'R':
				srv.SetHold(c.tok, true)
				ch <- puppetsrv.Cmd{Kind: "release3"}
				c.pending = append(c.pending, n)
			case 'G':
				srv.SetHold(c.tok, true)
				ch <- puppetsrv.Cmd{Kind: "releasego"}
				c.pending = append(c.pending, n)
			}
			key := [2]int{pc.Mgr, n}
			if blocked[key] {
				anyBlocked = true
			} else if immediate[b] && b != 'E' {
				prompt++
			}
		}
		// does the invocation return without any straggler being released?
		returns := false
		switch c.kind {
		case "async", "corr", "corrstream":
			returns = true
		case "mcast", "ucast":
			returns = true // one-way calls never wait for handlers
		case "rpc":
			returns = !blocked[[2]int{pc.Mgr, 1}] && immediate[pc.Beh[0]]
		case "qc":
			returns = prompt >= k
		}
		pos := tr.Len()
		tr.Emit("StubCall", 0, c.tok, "method", pc.M, "mgr", pc.Mgr)
		go func() {
			defer close(c.done)
			r.Invoke(c.tok, pc.M, c.kind, cfg, node, func(q *puppet.Req, _ uint32) *puppet.Req { return q }, pc.Nsw, c.ctx, req, c.obj)
		}()
		if returns {
			select {
			case <-c.done:
			case <-time.After(SyncTimeout):
				tr.Emit("Quiescent", 0, c.tok, "why", "stub did not return")
			}
		} else if r.awaitTok(c.tok, pos, isEv("CallIssued")) < 0 {
			tr.Emit("Quiescent", 0, c.tok, "why", "call not issued")
		}
		if pc.Cancel == "issued" {
			tr.Emit("CtxEnd", 0, c.tok, "cause", "canceled")
			c.ctx.End("canceled")
		}
		if anyBlocked {
			time.Sleep(ObsWindow)
		}
		for _, n := range c.targets {
			if holds[pc.Beh[n-1]] {
				blocked[[2]int{pc.Mgr, n}] = true
			}
		}
	}
	// release the stragglers
	order := make([]*progCall, len(calls))
	copy(order, calls)
	if p.Rel == "lifo" {
		for i, j := 0, len(order)-1; i < j; i, j = i+1, j-1 {
			order[i], order[j] = order[j], order[i]
		}
	}
	tr.Emit("ReleaseAll", 0, 0)
	for _, c := range order {
		for _, n := range c.pending {
			for _, cmd := range r.finalCmd(c.kind) {
				e.Server(n).Script(c.tok) <- cmd
			}
		}
	}
	// wait until every invocation returned and every started handler returned
	clean := true
	for _, c := range calls {
		select {
		case <-c.done:
		case <-time.After(SyncTimeout):
			clean = false
		}
	}
	mine := map[uint64]bool{}
	for _, t := range toks {
		mine[t] = true
	}
	want := 0
	for _, c := range calls {
		if c.pc.Cancel == "" {
			want += len(c.targets)
		}
	}
	starts, returns := 0, 0
	if tr.Await(progFrom, SyncTimeout, func(ev vtrace.Event) bool {
		if mine[ev.Tok] {
			switch ev.Ev {
			case "HStart":
				starts++
			case "HReturn":
				returns++
			}
		}
		return starts == returns && starts >= want
	}) < 0 {
		clean = false
	}
	// late replies of calls that ended early have been routed or dropped by now?
	time.Sleep(200 * time.Microsecond)
	tr.Emit("ProgEnd", 0, 0, "clean", clean)
	for _, c := range calls {
		e.QS.Forget(c.tok)
		for _, sv := range e.Servers {
			sv.Forget(c.tok)
		}
	}
	return toks
}
