// Package drive replays TLC-generated behaviours against the real gorums
// library (through freshly generated Puppet stubs) and records event traces.
package drive

import (
	"context"
	"fmt"
	"sort"
	"sync"
	"sync/atomic"
	"time"

	"github.com/relab/gorums"
	"google.golang.org/grpc"
	"google.golang.org/grpc/credentials/insecure"

	"verif/harness/gen/puppet"
	"verif/harness/puppetsrv"
	"verif/harness/vtrace"
)

// QFMarker marks values made by the harness quorum functions.
const QFMarker = 777

// QFParams parameterises the quorum function of one call.
type QFParams struct {
	QF   string // thr, eq
	K    int
	Lv   string // count, nonmono, jump, none
	Orig *puppet.Req
	idx  int
	// Delay, if set, is called inside the quorum function (slow QF).
	Delay func()
}

// QSpec implements the generated QuorumSpec interface.
type QSpec struct {
	Tr       *vtrace.Tracer
	mu       sync.Mutex
	params   map[uint64]*QFParams
	inflight map[uint64]*int32
}

// NewQSpec returns an empty quorum specification.
func NewQSpec(tr *vtrace.Tracer) *QSpec {
	return &QSpec{Tr: tr, params: map[uint64]*QFParams{}, inflight: map[uint64]*int32{}}
}

// Set registers the parameters for call token tok.
func (q *QSpec) Set(tok uint64, p *QFParams) {
	q.mu.Lock()
	q.params[tok] = p
	q.inflight[tok] = new(int32)
	q.mu.Unlock()
}

// Forget drops the parameters of a finished call.
func (q *QSpec) Forget(tok uint64) {
	q.mu.Lock()
	delete(q.params, tok)
	delete(q.inflight, tok)
	q.mu.Unlock()
}

func (q *QSpec) eval(in *puppet.Req, replies map[uint32]*puppet.Rep) (val int64, level int, quorum bool, idx int) {
	tok := in.GetCall()
	q.mu.Lock()
	p := q.params[tok]
	fl := q.inflight[tok]
	q.mu.Unlock()
	if p == nil {
		q.Tr.Emit("QF", 0, tok, "idx", 0, "reqok", false, "overlap", 0, "set", [][]int64{}, "q", false, "val", 0, "level", 0)
		return 0, 0, false, 0
	}
	overlap := atomic.AddInt32(fl, 1)
	defer atomic.AddInt32(fl, -1)
	keys := make([]int, 0, len(replies))
	for k := range replies {
		keys = append(keys, int(k))
	}
	sort.Ints(keys)
	set := make([][]int64, 0, len(keys))
	n1, n2 := 0, 0
	var sum int64
	for _, k := range keys {
		r := replies[uint32(k)]
		set = append(set, []int64{int64(k), int64(r.GetNode()), int64(r.GetCall()), int64(r.GetSerial()), r.GetVal()})
		sum += r.GetVal()
		switch r.GetVal() {
		case 1:
			n1++
		case 2:
			n2++
		}
	}
	switch p.QF {
	case "eq":
		switch {
		case n1 >= 2:
			val = 1
		case n2 >= 2:
			val = 2
		}
		// quorum iff two distinct nodes replied with equal values
		quorum = false
		for i := range set {
			for j := range set {
				if i != j && set[i][4] == set[j][4] {
					quorum = true
				}
			}
		}
	default:
		val = sum
		quorum = len(keys) >= p.K
	}
	switch p.Lv {
	case "count":
		level = len(keys)
	case "nonmono":
		level = 4 + n1 - n2
	case "jump":
		level = 2 * len(keys)
	}
	p.idx++
	idx = p.idx
	q.Tr.Emit("QF", 0, tok, "idx", idx, "reqok", in == p.Orig, "overlap", int(overlap), "set", set,
		"q", quorum, "val", val, "level", level)
	if p.Delay != nil {
		p.Delay()
	}
	return val, level, quorum, idx
}

func (q *QSpec) rep(in *puppet.Req, replies map[uint32]*puppet.Rep) (*puppet.Rep, int, bool) {
	v, l, ok, idx := q.eval(in, replies)
	return &puppet.Rep{Call: in.GetCall(), Val: v, Serial: uint64(idx), Conn: QFMarker}, l, ok
}

func (q *QSpec) agg(in *puppet.Req, replies map[uint32]*puppet.Rep) (*puppet.Agg, int, bool) {
	v, l, ok, idx := q.eval(in, replies)
	return &puppet.Agg{Token: in.GetCall(), Val: v, Count: uint32(idx)}, l, ok
}

func (q *QSpec) QCQF(in *puppet.Req, r map[uint32]*puppet.Rep) (*puppet.Rep, bool) {
	v, _, ok := q.rep(in, r)
	return v, ok
}

func (q *QSpec) QCPerNodeQF(in *puppet.Req, r map[uint32]*puppet.Rep) (*puppet.Rep, bool) {
	v, _, ok := q.rep(in, r)
	return v, ok
}

func (q *QSpec) QCCustomQF(in *puppet.Req, r map[uint32]*puppet.Rep) (*puppet.Agg, bool) {
	v, _, ok := q.agg(in, r)
	return v, ok
}

func (q *QSpec) QCComboQF(in *puppet.Req, r map[uint32]*puppet.Rep) (*puppet.Agg, bool) {
	v, _, ok := q.agg(in, r)
	return v, ok
}

func (q *QSpec) AsyncQF(in *puppet.Req, r map[uint32]*puppet.Rep) (*puppet.Rep, bool) {
	v, _, ok := q.rep(in, r)
	return v, ok
}

func (q *QSpec) AsyncPerNodeQF(in *puppet.Req, r map[uint32]*puppet.Rep) (*puppet.Rep, bool) {
	v, _, ok := q.rep(in, r)
	return v, ok
}

func (q *QSpec) AsyncCustomQF(in *puppet.Req, r map[uint32]*puppet.Rep) (*puppet.Agg, bool) {
	v, _, ok := q.agg(in, r)
	return v, ok
}

func (q *QSpec) CorrQF(in *puppet.Req, r map[uint32]*puppet.Rep) (*puppet.Rep, int, bool) {
	return q.rep(in, r)
}

func (q *QSpec) CorrPerNodeQF(in *puppet.Req, r map[uint32]*puppet.Rep) (*puppet.Rep, int, bool) {
	return q.rep(in, r)
}

func (q *QSpec) CorrCustomQF(in *puppet.Req, r map[uint32]*puppet.Rep) (*puppet.Agg, int, bool) {
	return q.agg(in, r)
}

func (q *QSpec) CorrStreamQF(in *puppet.Req, r map[uint32]*puppet.Rep) (*puppet.Rep, int, bool) {
	return q.rep(in, r)
}

func (q *QSpec) CorrStreamCustomQF(in *puppet.Req, r map[uint32]*puppet.Rep) (*puppet.Agg, int, bool) {
	return q.agg(in, r)
}

// ManualCtx is a context the driver ends by hand, with either cause.
type ManualCtx struct {
	parent context.Context
	done   chan struct{}
	mu     sync.Mutex
	err    error
}

// NewManualCtx returns a live context carrying the call token.
func NewManualCtx(tok uint64) *ManualCtx {
	return &ManualCtx{parent: vtrace.WithToken(context.Background(), tok), done: make(chan struct{})}
}

func (c *ManualCtx) Deadline() (time.Time, bool)     { return time.Time{}, false }
func (c *ManualCtx) Done() <-chan struct{}           { return c.done }
func (c *ManualCtx) Value(k interface{}) interface{} { return c.parent.Value(k) }
func (c *ManualCtx) Err() error {
	c.mu.Lock()
	defer c.mu.Unlock()
	return c.err
}

// End ends the context: cause "deadline" gives DeadlineExceeded, anything else Canceled.
func (c *ManualCtx) End(cause string) {
	c.mu.Lock()
	defer c.mu.Unlock()
	if c.err != nil {
		return
	}
	if cause == "deadline" {
		c.err = context.DeadlineExceeded
	} else {
		c.err = context.Canceled
	}
	close(c.done)
}

// Env is one client (manager, configurations) and its puppet servers.
type Env struct {
	Tr      *vtrace.Tracer
	Servers []*puppetsrv.Server // index i holds node id i+1
	Mgr     *puppet.Manager
	QS      *QSpec
	Cfgs    map[int]*puppet.Configuration // by size: nodes 1..n
	// second, independent client of the same servers (own connections)
	Mgr2  *puppet.Manager
	Cfgs2 map[int]*puppet.Configuration
	tok   uint64
}

// EnvOpts configures NewEnv.
type EnvOpts struct {
	Nodes   int
	MgrOpts []gorums.ManagerOption
	SrvOpts []gorums.ServerOption
	// Down lists node ids that are not started.
	Down map[int]bool
	// TwoMgrs creates a second manager talking to the same servers.
	TwoMgrs bool
	// DialTimeout overrides the dial timeout (default 2 s).
	DialTimeout time.Duration
	// TokBase is the first call token minus one.
	TokBase uint64
	// SendBuf is the managers' send buffer size (recorded in the trace).
	SendBuf uint
}

// NewEnv starts the puppet servers and creates the manager and one
// configuration per prefix size.
func NewEnv(tr *vtrace.Tracer, o EnvOpts) (*Env, error) {
	if o.SendBuf > 0 {
		o.MgrOpts = append(append([]gorums.ManagerOption{}, o.MgrOpts...), gorums.WithSendBufferSize(o.SendBuf))
	}
	tr.Emit("EnvInfo", 0, 0, "sendbuf", int(o.SendBuf), "nodes", o.Nodes)
	e := &Env{Tr: tr, QS: NewQSpec(tr), Cfgs: map[int]*puppet.Configuration{}, tok: o.TokBase}
	idmap := map[string]uint32{}
	for i := 1; i <= o.Nodes; i++ {
		s := puppetsrv.New(uint32(i), tr)
		s.SrvOpts = o.SrvOpts
		if o.Down[i] {
			if err := s.Reserve(); err != nil {
				return nil, err
			}
		} else if err := s.Start(); err != nil {
			return nil, err
		}
		e.Servers = append(e.Servers, s)
		idmap[s.Addr] = uint32(i)
	}
	dt := 2 * time.Second
	if o.DialTimeout > 0 {
		dt = o.DialTimeout
	}
	opts := append([]gorums.ManagerOption{
		gorums.WithDialTimeout(dt),
		gorums.WithGrpcDialOptions(grpc.WithTransportCredentials(insecure.NewCredentials()), grpc.WithBlock()),
	}, o.MgrOpts...)
	mk := func() (*puppet.Manager, map[int]*puppet.Configuration, error) {
		mgr := puppet.NewManager(opts...)
		cfgs := map[int]*puppet.Configuration{}
		all, err := mgr.NewConfiguration(e.QS, gorums.WithNodeMap(idmap))
		if err != nil {
			return nil, nil, err
		}
		cfgs[o.Nodes] = all
		for n := 1; n < o.Nodes; n++ {
			ids := make([]uint32, n)
			for i := range ids {
				ids[i] = uint32(i + 1)
			}
			c, err := mgr.NewConfiguration(e.QS, gorums.WithNodeIDs(ids))
			if err != nil {
				return nil, nil, err
			}
			cfgs[n] = c
		}
		return mgr, cfgs, nil
	}
	var err error
	if e.Mgr, e.Cfgs, err = mk(); err != nil {
		return nil, err
	}
	if o.TwoMgrs {
		if e.Mgr2, e.Cfgs2, err = mk(); err != nil {
			return nil, err
		}
		gorums.VerifSetNextMsgID(e.Mgr2.RawManager, 1<<40)
	}
	return e, nil
}

// PeekTok returns the last call token handed out.
func (e *Env) PeekTok() uint64 { return atomic.LoadUint64(&e.tok) }

// NextTok returns a fresh call token.
func (e *Env) NextTok() uint64 { return atomic.AddUint64(&e.tok, 1) }

// Server returns the puppet server of node id.
func (e *Env) Server(id int) *puppetsrv.Server { return e.Servers[id-1] }

// Node returns the generated node object of node id.
func (e *Env) Node(id int) *puppet.Node {
	for _, n := range e.Cfgs[len(e.Servers)].Nodes() {
		if n.ID() == uint32(id) {
			return n
		}
	}
	panic(fmt.Sprintf("no node %d", id))
}

// Close closes the manager and stops the servers.
func (e *Env) Close() {
	e.Mgr.Close()
	if e.Mgr2 != nil {
		e.Mgr2.Close()
	}
	for _, s := range e.Servers {
		s.Stop()
	}
}
