package drive

import (
	"context"
	"errors"
	"fmt"
	"regexp"
	"strconv"
	"strings"
	"sync/atomic"
	"time"

	"github.com/relab/gorums"
	"google.golang.org/grpc/codes"

	"verif/harness/gen/puppet"
	"verif/harness/puppetsrv"
	"verif/harness/vtrace"
)

// ScParams is the scenario record of the TLA+ module Calls.
type ScParams struct {
	Method string   `json:"method"`
	Kind   string   `json:"kind"`
	Custom bool     `json:"custom"`
	N      int      `json:"n"`
	Pn     []string `json:"pn"`
	Qf     string   `json:"qf"`
	K      int      `json:"k"`
	Lv     string   `json:"lv"`
	Nsw    bool     `json:"nsw"`
	Vals   int      `json:"vals"`
	Fk     string   `json:"fk"` // C07: how the "t" nodes fail: crash, downbefore, never
}

// HStep is one environment action of a generated history.
type HStep struct {
	A string `json:"a"` // r, end, canceled, deadline
	N int    `json:"n"`
	E bool   `json:"e"`
	V int64  `json:"v"`
}

// Scenario is one line of the generator's output.
type Scenario struct {
	Sc    ScParams `json:"sc"`
	H     []HStep  `json:"h"`
	Out   string   `json:"out"`
	Stuck bool     `json:"stuck"`
}

// WatchLevels are the levels for which watchers are registered.
var WatchLevels = []int{-1, 0, 1, 2, 3, 4, 5, 6, 7, 8}

// SyncTimeout bounds every wait for a library event; Quiesce is the period
// without events after which the driver declares quiescence.
var (
	SyncTimeout = 3 * time.Second
	// PersistT: a timing-dependent observation of the free workloads (a call that
	// has not returned, a handler that has not returned, a router that is left)
	// becomes a verdict only if it still holds this long after the normal bound;
	// every timer of those workloads is below 100 ms
	PersistT = 30 * time.Second
	Quiesce  = 2 * time.Second
)

var (
	reCounts = regexp.MustCompile(`\(errors: (\d+), replies: (\d+)\)`)
	reNode   = regexp.MustCompile(`(?m)^\tnode (\d+): `)
)

type errInfo struct {
	tag      string
	cause    string
	nerr     int
	nrep     int
	errnodes []int
	// details: per node error [node, status code, carries the handler's message]
	details [][]interface{}
}

var reNodeLine = regexp.MustCompile(`(?m)^\tnode (\d+): (.*)$`)
var reCode = regexp.MustCompile(`code = (\w+)`)

var codeByName = func() map[string]int {
	m := map[string]int{}
	for c := codes.Code(0); c <= 16; c++ {
		m[c.String()] = int(c)
	}
	return m
}()

func classify(err error) errInfo {
	ei := errInfo{tag: "ok", cause: "none", errnodes: []int{}, details: [][]interface{}{}}
	if err == nil {
		return ei
	}
	switch {
	case errors.Is(err, gorums.Incomplete):
		ei.tag = "incomplete"
	case errors.Is(err, context.Canceled):
		ei.tag, ei.cause = "ctx", "canceled"
	case errors.Is(err, context.DeadlineExceeded):
		ei.tag, ei.cause = "ctx", "deadline"
	default:
		ei.tag = "other"
	}
	if m := reCounts.FindStringSubmatch(err.Error()); m != nil {
		ei.nerr, _ = strconv.Atoi(m[1])
		ei.nrep, _ = strconv.Atoi(m[2])
	} else {
		ei.nerr, ei.nrep = -1, -1
	}
	for _, m := range reNode.FindAllStringSubmatch(err.Error(), -1) {
		id, _ := strconv.Atoi(m[1])
		ei.errnodes = append(ei.errnodes, id)
	}
	for _, m := range reNodeLine.FindAllStringSubmatch(err.Error(), -1) {
		id, _ := strconv.Atoi(m[1])
		code := -1
		if c := reCode.FindStringSubmatch(m[2]); c != nil {
			if v, ok := codeByName[c[1]]; ok {
				code = v
			}
		}
		ei.details = append(ei.details, []interface{}{id, code, strings.Contains(m[2], fmt.Sprintf("-%d", id)) && strings.Contains(m[2], "fail-")})
	}
	return ei
}

type callObj struct {
	asyncRep *puppet.AsyncRep
	asyncAgg *puppet.AsyncAgg
	corr     *gorums.Correctable
	typedGet func() (isNil bool, err error)
	watches  map[int]<-chan struct{}
	// watchers registered during earlier observations (newest last)
	lateWatches []lateWatch
}

type lateWatch struct {
	level int
	ch    <-chan struct{}
}

// resInfo extracts the harness stamps of a result value.
func resInfo(v interface{}) (isNil bool, src string, idx int, restok uint64, rnode int) {
	switch r := v.(type) {
	case nil:
		return true, "none", 0, 0, 0
	case *puppet.Rep:
		if r == nil {
			return true, "none", 0, 0, 0
		}
		if r.GetConn() == QFMarker {
			return false, "qf", int(r.GetSerial()), r.GetCall(), 0
		}
		return false, "node", 0, r.GetCall(), int(r.GetNode())
	case *puppet.Agg:
		if r == nil {
			return true, "none", 0, 0, 0
		}
		return false, "qf", int(r.GetCount()), r.GetToken(), 0
	}
	return false, "other", 0, 0, 0
}

func closed(ch <-chan struct{}) bool {
	select {
	case <-ch:
		return true
	default:
		return false
	}
}

// Runner replays call scenarios on an Env.
type Runner struct {
	E *Env
	// Stuck counts the scenarios in which the driver had to declare quiescence.
	Stuck int32
	// QFDelayPct is the percentage of free calls whose quorum function is slow (1-3 ms per invocation).
	QFDelayPct int
}

func (r *Runner) perNodeFn(sc ScParams) func(*puppet.Req, uint32) *puppet.Req {
	return func(req *puppet.Req, nid uint32) *puppet.Req {
		switch sc.Pn[int(nid)-1] {
		case "skip":
			return nil
		case "own":
			return &puppet.Req{Call: req.GetCall(), Tag: nid, Orig: req.GetCall()}
		}
		return req
	}
}

// issue invokes the generated stub of the scenario's method and reports what
// it returned as a StubRet event.
func (r *Runner) issue(tok uint64, sc ScParams, ctx context.Context, req *puppet.Req, obj *callObj) {
	r.Invoke(tok, sc.Method, sc.Kind, r.E.Cfgs[sc.N], r.E.Node(1), r.perNodeFn(sc), sc.Nsw, ctx, req, obj)
}

// Invoke calls the generated stub of method on cfg (or node for RPC and
// unicast) and reports what it returned as a StubRet event.
func (r *Runner) Invoke(tok uint64, method, kind string, cfg *puppet.Configuration, node *puppet.Node,
	f func(*puppet.Req, uint32) *puppet.Req, nsw bool, ctx context.Context, req *puppet.Req, obj *callObj) {
	tr := r.E.Tr
	var opts []gorums.CallOption
	if nsw {
		opts = append(opts, gorums.WithNoSendWaiting())
	}
	panicked := false
	var res interface{}
	var err error
	func() {
		defer func() {
			if p := recover(); p != nil {
				panicked = true
				err = fmt.Errorf("panic: %v", p)
			}
		}()
		switch method {
		case "Rpc":
			res, err = node.Rpc(ctx, req)
		case "QC":
			res, err = cfg.QC(ctx, req)
		case "QCPerNode":
			res, err = cfg.QCPerNode(ctx, req, f)
		case "QCCustom":
			res, err = cfg.QCCustom(ctx, req)
		case "QCCombo":
			res, err = cfg.QCCombo(ctx, req, f)
		case "Async":
			obj.asyncRep = cfg.Async(ctx, req)
		case "AsyncPerNode":
			obj.asyncRep = cfg.AsyncPerNode(ctx, req, f)
		case "AsyncCustom":
			obj.asyncAgg = cfg.AsyncCustom(ctx, req)
		case "Corr":
			c := cfg.Corr(ctx, req)
			obj.corr, obj.typedGet = c.Correctable, func() (bool, error) { v, _, e := c.Get(); return v == nil, e }
		case "CorrPerNode":
			c := cfg.CorrPerNode(ctx, req, f)
			obj.corr, obj.typedGet = c.Correctable, func() (bool, error) { v, _, e := c.Get(); return v == nil, e }
		case "CorrCustom":
			c := cfg.CorrCustom(ctx, req)
			obj.corr, obj.typedGet = c.Correctable, func() (bool, error) { v, _, e := c.Get(); return v == nil, e }
		case "CorrStream":
			c := cfg.CorrStream(ctx, req)
			obj.corr, obj.typedGet = c.Correctable, func() (bool, error) { v, _, e := c.Get(); return v == nil, e }
		case "CorrStreamCustom":
			c := cfg.CorrStreamCustom(ctx, req)
			obj.corr, obj.typedGet = c.Correctable, func() (bool, error) { v, _, e := c.Get(); return v == nil, e }
		case "Mcast":
			cfg.Mcast(ctx, req, opts...)
		case "McastPerNode":
			cfg.McastPerNode(ctx, req, f, opts...)
		case "Ucast":
			node.Ucast(ctx, req, opts...)
		default:
			err = fmt.Errorf("unknown method %s", method)
			panicked = true
		}
	}()
	if obj.corr != nil {
		obj.watches = map[int]<-chan struct{}{}
		for _, l := range WatchLevels {
			obj.watches[l] = obj.corr.Watch(l)
		}
	}
	ei := classify(err)
	if kind == "rpc" && err != nil && ei.tag == "other" {
		ei.tag = "err"
	}
	isNil, _, idx, restok, _ := resInfo(res)
	errtext := ""
	if err != nil {
		errtext = err.Error()
	}
	tr.Emit("StubRet", 0, tok, "panicked", panicked, "tag", ei.tag, "cause", ei.cause, "qfidx", idx, "restok", restok,
		"resnil", isNil, "nerr", ei.nerr, "nrep", ei.nrep, "errnodes", ei.errnodes, "errdetails", ei.details, "errtext", errtext)
}

func (r *Runner) obsAsync(tok uint64, obj *callObj, wait bool) {
	get := func() (interface{}, error) {
		if obj.asyncRep != nil {
			v, e := obj.asyncRep.Get()
			if v == nil {
				return nil, e
			}
			return v, e
		}
		v, e := obj.asyncAgg.Get()
		if v == nil {
			return nil, e
		}
		return v, e
	}
	done := func() bool {
		if obj.asyncRep != nil {
			return obj.asyncRep.Done()
		}
		return obj.asyncAgg.Done()
	}
	if wait {
		// the future is closed right after the CallEnd event
		deadline := time.Now().Add(SyncTimeout)
		for !done() && time.Now().Before(deadline) {
			time.Sleep(50 * time.Microsecond)
		}
	}
	if !done() {
		r.E.Tr.Emit("ObsAsync", 0, tok, "done", false, "stable", true, "tag", "none", "cause", "none", "qfidx", 0,
			"restok", 0, "resnil", true, "nerr", 0, "nrep", 0, "errnodes", []int{}, "errdetails", [][]interface{}{})
		return
	}
	type one struct {
		isNil  bool
		idx    int
		restok uint64
		ei     errInfo
	}
	obs := make([]one, 3)
	res := make(chan one, 2)
	for i := 0; i < 2; i++ { // two concurrent Gets
		go func() {
			v, e := get()
			n, _, idx, rt, _ := resInfo(v)
			res <- one{n, idx, rt, classify(e)}
		}()
	}
	v, e := get()
	n, _, idx, rt, _ := resInfo(v)
	obs[0] = one{n, idx, rt, classify(e)}
	obs[1], obs[2] = <-res, <-res
	stable := done()
	for i := 1; i < 3; i++ {
		if obs[i].isNil != obs[0].isNil || obs[i].idx != obs[0].idx || obs[i].restok != obs[0].restok ||
			obs[i].ei.tag != obs[0].ei.tag || obs[i].ei.nerr != obs[0].ei.nerr || obs[i].ei.nrep != obs[0].ei.nrep {
			stable = false
		}
	}
	o := obs[0]
	r.E.Tr.Emit("ObsAsync", 0, tok, "done", true, "stable", stable, "tag", o.ei.tag, "cause", o.ei.cause, "qfidx", o.idx,
		"restok", o.restok, "resnil", o.isNil, "nerr", o.ei.nerr, "nrep", o.ei.nrep, "errnodes", o.ei.errnodes,
		"errdetails", o.ei.details)
}

func (r *Runner) obsCorr(tok uint64, obj *callObj) {
	msg, level, err := obj.corr.Get()
	var mv interface{}
	if msg != nil {
		mv = msg
	}
	_, src, idx, restok, rnode := resInfo(mv)
	ei := classify(err)
	errtag := ei.tag
	if errtag == "ok" {
		errtag = "none"
	}
	typed := "ok"
	func() {
		defer func() {
			if p := recover(); p != nil {
				typed = "panic"
			}
		}()
		isNil, e := obj.typedGet()
		switch {
		case e != nil:
			typed = "err"
		case isNil:
			typed = "nil"
		}
	}()
	w := make([][]interface{}, 0, len(WatchLevels))
	lw := make([][]interface{}, 0, len(WatchLevels))
	for _, l := range WatchLevels {
		w = append(w, []interface{}{l, closed(obj.watches[l])})
	}
	// watchers registered by earlier observations are still watchers: they sit in
	// the correctable's list between the early ones and must be released alike
	for _, lw := range obj.lateWatches {
		w = append(w, []interface{}{lw.level, closed(lw.ch)})
	}
	for _, l := range WatchLevels {
		ch := obj.corr.Watch(l)
		lw = append(lw, []interface{}{l, closed(ch)})
		obj.lateWatches = append(obj.lateWatches, lateWatch{l, ch})
	}
	if n := len(obj.lateWatches); n > 3*len(WatchLevels) {
		obj.lateWatches = obj.lateWatches[n-3*len(WatchLevels):]
	}
	r.E.Tr.Emit("ObsCorr", 0, tok, "level", level, "done", closed(obj.corr.Done()), "errtag", errtag, "src", src,
		"idx", idx, "restok", restok, "rnode", rnode, "typed", typed, "nerr", ei.nerr, "nrep", ei.nrep,
		"errnodes", ei.errnodes, "w", w, "lw", lw)
}

// awaitTok waits for an event of call tok satisfying pred.
func (r *Runner) awaitTok(tok uint64, from int, pred func(vtrace.Event) bool) int {
	return r.E.Tr.Await(from, SyncTimeout, func(e vtrace.Event) bool { return e.Tok == tok && pred(e) })
}

func isEv(names ...string) func(vtrace.Event) bool {
	return func(e vtrace.Event) bool {
		for _, n := range names {
			if e.Ev == n {
				return true
			}
		}
		return false
	}
}

// Run replays one scenario and returns the call token used.
func (r *Runner) Run(s Scenario) uint64 {
	e := r.E
	tr := e.Tr
	sc := s.Sc
	tok := e.NextTok()
	req := &puppet.Req{Call: tok}
	e.QS.Set(tok, &QFParams{QF: sc.Qf, K: sc.K, Lv: sc.Lv, Orig: req})
	ctx := NewManualCtx(tok)
	from := tr.Len()
	obj := &callObj{}
	h := s.H
	nonSkipped := 0
	for _, p := range sc.Pn {
		if p != "skip" {
			nonSkipped++
		}
	}
	ctxBefore := false
	if len(h) > 0 && h[0].A == "precancel" {
		tr.Emit("CtxEnd", 0, tok, "cause", "canceled")
		ctx.End("canceled")
		h = h[1:]
		ctxBefore = true
	}
	if sc.Fk == "downbefore" {
		// C07: the failing nodes are stopped before the call is issued
		for _, st := range h {
			if st.A == "t" {
				tr.Emit("NodeDown", uint32(st.N), tok)
				e.Server(st.N).Stop()
			}
		}
		time.Sleep(5 * time.Millisecond)
	}
	if sc.Fk == "never" {
		for _, st := range h {
			if st.A == "t" {
				tr.Emit("NodeDown", uint32(st.N), tok)
			}
		}
	}
	stubDone := make(chan struct{})
	go func() {
		defer close(stubDone)
		r.issue(tok, sc, ctx, req, obj)
	}()
	async := sc.Kind == "async"
	corr := sc.Kind == "corr" || sc.Kind == "corrstream"
	ended := func() bool {
		return tr.Await(from, 0, func(ev vtrace.Event) bool { return ev.Tok == tok && ev.Ev == "CallEnd" }) >= 0
	}
	if async || corr {
		select {
		case <-stubDone:
		case <-time.After(SyncTimeout):
		}
		// a first observation when nothing can change yet
		if nonSkipped > 0 && !ctxBefore {
			if async && (obj.asyncRep != nil || obj.asyncAgg != nil) {
				r.obsAsync(tok, obj, false)
			}
			if corr && obj.corr != nil {
				r.obsCorr(tok, obj)
			}
		}
	}
	stuck := false
	commanded := map[int]int{}
	// lock-step: the environment acts only when the library is quiescent, so
	// wait until the transport has dealt with every request of this call
	// (sent, or not sent because the context had ended / the stream was down)
	if nonSkipped > 0 {
		settled := 0
		if tr.Await(from, SyncTimeout, func(ev vtrace.Event) bool {
			if ev.Tok == tok {
				switch ev.Ev {
				case "SendDone", "CtxSkip", "BrokenReply", "ClosedReply", "CtxReply":
					settled++
				}
			}
			return settled >= nonSkipped
		}) < 0 {
			stuck = true
		}
	}
	for _, st := range h {
		if stuck {
			break
		}
		if ended() {
			// the call has already ended (errors of nodes that were down arrive
			// by themselves): the rest of the script cannot be observed by it
			break
		}
		pos := tr.Len()
		switch st.A {
		case "t":
			// the connection to node st.N fails
			if sc.Fk == "crash" {
				if r.awaitTok(tok, from, func(ev vtrace.Event) bool { return ev.Ev == "HStart" && int(ev.Node) == st.N }) < 0 {
					stuck = true
					break
				}
				commanded[st.N] = 1 << 20
				tr.Emit("NodeDown", uint32(st.N), tok)
				e.Server(st.N).Stop()
				if r.awaitTok(tok, pos, isEv("CallLoop", "CallEnd")) < 0 {
					stuck = true
				}
			}
			// downbefore / never: the node was down before the call was issued
		case "flap":
			// the stopped node comes back, the library re-creates the stream (the
			// receiver's reconnect loop), and the node is stopped again
			if err := e.Server(st.N).Start(); err != nil {
				stuck = true
				break
			}
			node := e.Node(st.N).RawNode
			up := false
			for i := 0; i < 300 && !up; i++ {
				gorums.VerifRedialNow(node)
				up = tr.Await(pos, 10*time.Millisecond, func(ev vtrace.Event) bool {
					return ev.Ev == "ReconNewStream" && int(ev.Node) == st.N && ev.Bool("ok")
				}) >= 0
			}
			if !up {
				stuck = true
				break
			}
			// the receiver reads from the new stream
			tr.Await(pos, SyncTimeout, func(ev vtrace.Event) bool { return ev.Ev == "RecvWait" && int(ev.Node) == st.N })
			pos2 := tr.Len()
			e.Server(st.N).Stop()
			tr.Await(pos2, SyncTimeout, func(ev vtrace.Event) bool { return ev.Ev == "CancelPending" && int(ev.Node) == st.N })
			time.Sleep(2 * time.Millisecond)
			tr.Emit("NodeFlap", uint32(st.N), tok)
		case "r":
			if r.awaitTok(tok, from, func(ev vtrace.Event) bool { return ev.Ev == "HStart" && int(ev.Node) == st.N }) < 0 {
				stuck = true
				break
			}
			cmd := puppetsrv.Cmd{Kind: "reply", Val: st.V}
			if st.E {
				cmd = puppetsrv.Cmd{Kind: "fail", Code: codes.Code(3 + (tok+uint64(st.N))%12), Msg: fmt.Sprintf("fail-%d-%d", tok, st.N)}
			}
			commanded[st.N]++
			e.Server(st.N).Script(tok) <- cmd
			if r.awaitTok(tok, pos, isEv("CallLoop", "CallEnd")) < 0 {
				stuck = true
			}
		case "end":
			if r.awaitTok(tok, from, func(ev vtrace.Event) bool { return ev.Ev == "HStart" && int(ev.Node) == st.N }) < 0 {
				stuck = true
				break
			}
			commanded[st.N] = 1 << 20
			e.Server(st.N).Script(tok) <- puppetsrv.Cmd{Kind: "end"}
			if r.awaitTok(tok, pos, isEv("HEnd")) < 0 {
				stuck = true
			}
		case "canceled", "deadline":
			tr.Emit("CtxEnd", 0, tok, "cause", st.A)
			ctx.End(st.A)
			if r.awaitTok(tok, pos, isEv("CallEnd")) < 0 {
				stuck = true
			}
		}
		if stuck {
			break
		}
		if corr && obj.corr != nil {
			r.obsCorr(tok, obj)
		}
	}
	// the script is over: the call has ended, or it must be legitimately waiting
	if !stuck && !ended() && !(async || corr) {
		// synchronous stubs: give the call the chance to end by itself
		if r.awaitTok(tok, from, isEv("CallEnd")) < 0 {
			stuck = true
		}
	} else if !stuck && !ended() {
		if tr.Await(from, Quiesce, func(ev vtrace.Event) bool { return ev.Tok == tok && ev.Ev == "CallEnd" }) < 0 {
			stuck = true
		}
	}
	if stuck || !ended() {
		atomic.AddInt32(&r.Stuck, 1)
		tr.Emit("Quiescent", 0, tok)
		if corr && obj.corr != nil {
			r.obsCorr(tok, obj)
		}
		// clean up: end the context
		pos := tr.Len()
		if ctx.Err() == nil {
			tr.Emit("CtxEnd", 0, tok, "cause", "canceled")
			ctx.End("canceled")
		}
		if r.awaitTok(tok, pos, isEv("CallEnd")) < 0 && !ended() {
			tr.Emit("Quiescent", 0, tok)
		}
	}
	select {
	case <-stubDone:
	case <-time.After(SyncTimeout):
	}
	if ended() {
		if async && (obj.asyncRep != nil || obj.asyncAgg != nil) {
			r.obsAsync(tok, obj, true)
		}
		if corr && obj.corr != nil {
			r.obsCorr(tok, obj)
		}
	}
	// release the handlers that are still waiting (late replies)
	started := map[int]bool{}
	for _, ev := range tr.Events(from) {
		if ev.Tok == tok && ev.Ev == "HStart" {
			started[int(ev.Node)] = true
		}
	}
	pos := tr.Len()
	late := 0
	for n := range started {
		switch sc.Kind {
		case "corrstream":
			if commanded[n] < 1<<20 {
				e.Server(n).Script(tok) <- puppetsrv.Cmd{Kind: "end"}
			}
		case "mcast", "ucast":
			e.Server(n).Script(tok) <- puppetsrv.Cmd{Kind: "done"}
		default:
			if commanded[n] == 0 {
				e.Server(n).Script(tok) <- puppetsrv.Cmd{Kind: "reply", Val: 1}
				late++
			}
		}
	}
	if late > 0 {
		cnt := 0
		tr.Await(pos, SyncTimeout, func(ev vtrace.Event) bool {
			if ev.Tok == tok && ev.Ev == "Route" {
				cnt++
			}
			return cnt >= late
		})
	}
	e.QS.Forget(tok)
	for _, sv := range e.Servers {
		sv.Forget(tok)
	}
	return tok
}
