package main

import (
	"bufio"

	"github.com/relab/gorums"
	"google.golang.org/grpc/backoff"

	"encoding/json"
	"flag"
	"fmt"
	"math/rand"
	"os"
	"sort"
	"sync"
	"sync/atomic"
	"time"

	"verif/harness/drive"
	"verif/harness/vtrace"
)

// callsAlphabet is the event alphabet of CallsTrace.tla.
var callsAlphabet = map[string]bool{
	"CallStart": true, "CallSkip": true, "HandOffWait": true, "CallEnq": true, "CallIssued": true,
	"HStart": true, "HReply": true, "HFail": true, "HEnd": true, "Route": true, "CallRecv": true,
	"CallConfirm": true, "QF": true, "CorrPublish": true, "CallLoop": true, "CallEnd": true, "CtxEnd": true,
	"StubRet": true, "ObsAsync": true, "ObsCorr": true, "Quiescent": true, "NodeDown": true, "NodeFlap": true,
}

func readScenarios(path string) ([]drive.Scenario, error) {
	f, err := os.Open(path)
	if err != nil {
		return nil, err
	}
	defer f.Close()
	var out []drive.Scenario
	sc := bufio.NewScanner(f)
	sc.Buffer(make([]byte, 1<<20), 1<<26)
	for sc.Scan() {
		line := sc.Bytes()
		if len(line) == 0 {
			continue
		}
		// TLC writes the JSON text as a quoted TLA+ string
		var inner string
		if line[0] == '"' {
			if err := json.Unmarshal(line, &inner); err != nil {
				return nil, fmt.Errorf("%s: %v", path, err)
			}
		} else {
			inner = string(line)
		}
		var s drive.Scenario
		if err := json.Unmarshal([]byte(inner), &s); err != nil {
			return nil, fmt.Errorf("%s: %v", path, err)
		}
		out = append(out, s)
	}
	return out, sc.Err()
}

func scenarioKey(s drive.Scenario) string {
	b, _ := json.Marshal(s)
	return string(b)
}

// nontrivial: the history contains at least one reply and either an error,
// a context end or a second reply, or the scenario skips a node.
func nontrivial(s drive.Scenario) bool {
	rep, other := 0, 0
	for _, st := range s.H {
		if st.A == "r" && !st.E {
			rep++
		} else {
			other++
		}
	}
	for _, p := range s.Sc.Pn {
		if p != "same" {
			other++
		}
	}
	return rep >= 1 && (rep >= 2 || other >= 1)
}

func cmdCalls(args []string) error {
	fs := flag.NewFlagSet("calls", flag.ExitOnError)
	hist := fs.String("hist", "", "generated histories (one JSON line each)")
	out := fs.String("out", "", "trace output (ndjson)")
	stats := fs.String("stats", "", "statistics output (json)")
	seed := fs.Int64("seed", 1, "seed for subset selection and order")
	max := fs.Int("max", 0, "replay at most this many histories (0 = all)")
	par := fs.Int("par", 4, "calls in flight concurrently")
	nodes := fs.Int("nodes", 3, "number of puppet nodes")
	fs.Parse(args)
	scs, err := readScenarios(*hist)
	if err != nil {
		return err
	}
	total := len(scs)
	rng := rand.New(rand.NewSource(*seed))
	rng.Shuffle(len(scs), func(i, j int) { scs[i], scs[j] = scs[j], scs[i] })
	exhaustive := true
	if *max > 0 && len(scs) > *max {
		scs = scs[:*max]
		exhaustive = false
	}
	faults := false
	for _, s := range scs {
		if s.Sc.Fk != "" {
			faults = true
		}
	}
	start := time.Now()
	toks := make([]uint64, len(scs))
	byTok := map[uint64][]vtrace.Event{}
	if faults {
		// C07: servers are stopped / never started: a fresh environment per scenario
		for i, s := range scs {
			tr := vtrace.New()
			down := map[int]bool{}
			if s.Sc.Fk == "never" {
				for _, st := range s.H {
					if st.A == "t" {
						down[st.N] = true
					}
				}
			}
			env, err := drive.NewEnv(tr, drive.EnvOpts{Nodes: s.Sc.N, Down: down, DialTimeout: 100 * time.Millisecond, TokBase: uint64(i+1) * 100,
				MgrOpts: []gorums.ManagerOption{gorums.WithBackoff(backoff.Config{BaseDelay: 50 * time.Millisecond, Multiplier: 1.5, MaxDelay: 200 * time.Millisecond})}})
			if err != nil {
				return err
			}
			run := &drive.Runner{E: env}
			toks[i] = run.Run(s)
			tr.Stop()
			for _, e := range tr.Events(0) {
				if e.Tok == toks[i] && callsAlphabet[e.Ev] {
					byTok[toks[i]] = append(byTok[toks[i]], e)
				}
			}
			env.Close()
		}
	} else {
		tr := vtrace.New()
		env, err := drive.NewEnv(tr, drive.EnvOpts{Nodes: *nodes})
		if err != nil {
			return err
		}
		run := &drive.Runner{E: env}
		var wg sync.WaitGroup
		next := make(chan int)
		for w := 0; w < *par; w++ {
			wg.Add(1)
			go func() {
				defer wg.Done()
				for i := range next {
					toks[i] = run.Run(scs[i])
				}
			}()
		}
		fed := 0
		for i := range scs {
			if atomic.LoadInt32(&run.Stuck) >= 20 {
				// enough evidence; every further scenario would wait out the same timeouts
				break
			}
			next <- i
			fed++
		}
		close(next)
		wg.Wait()
		if fed < len(scs) {
			scs, toks, exhaustive = scs[:fed], toks[:fed], false
		}
		tr.Stop()
		events := tr.Events(0)
		env.Close()
		if dump := os.Getenv("VERIF_DUMP_ALL"); dump != "" {
			// debugging aid: every recorded event, unfiltered
			if dw, err := vtrace.NewWriter(dump); err == nil {
				for _, e := range events {
					dw.Write(0, e)
				}
				dw.Close()
			}
		}
		for _, e := range events {
			if e.Tok != 0 && callsAlphabet[e.Ev] {
				byTok[e.Tok] = append(byTok[e.Tok], e)
			}
		}
	}
	wall := time.Since(start)
	w, err := vtrace.NewWriter(*out)
	if err != nil {
		return err
	}
	distinct := map[string]bool{}
	nontriv := 0
	quiescent := 0
	for i, s := range scs {
		k := scenarioKey(s)
		if !distinct[k] {
			distinct[k] = true
			if nontrivial(s) {
				nontriv++
			}
		}
		w.WriteRaw(map[string]interface{}{"ev": "Scenario", "t": i, "tok": toks[i], "node": 0, "msg": 0, "sc": s.Sc, "h": s.H})
		evs := byTok[toks[i]]
		sort.SliceStable(evs, func(a, b int) bool { return evs[a].Seq < evs[b].Seq })
		for _, e := range evs {
			if e.Ev == "Route" {
				for _, k := range []string{"err", "empty"} {
					if _, ok := e.F[k]; !ok {
						e.F[k] = false
					}
				}
			}
			if e.Ev == "Quiescent" {
				quiescent++
			}
			if err := w.Write(i, e); err != nil {
				return err
			}
		}
	}
	if err := w.Close(); err != nil {
		return err
	}
	samples := []interface{}{}
	for i := 0; i < len(scs) && i < 3; i++ {
		samples = append(samples, scs[i])
	}
	st := map[string]interface{}{
		"generated": total, "replayed": len(scs), "distinct": len(distinct), "distinct_nontrivial": nontriv,
		"exhaustive": exhaustive, "events": w.Lines(), "quiescent_events": quiescent, "wall_s": wall.Seconds(),
		"samples": samples,
	}
	b, _ := json.MarshalIndent(st, "", " ")
	if *stats != "" {
		if err := os.WriteFile(*stats, b, 0o644); err != nil {
			return err
		}
	}
	fmt.Printf("replayed %d/%d histories, %d events, %.1fs\n", len(scs), total, w.Lines(), wall.Seconds())
	return nil
}
