package main

import (
	"bufio"
	"bytes"
	"context"
	"encoding/json"
	"flag"
	"fmt"
	"go/ast"
	"go/parser"
	"go/token"
	"math/rand"
	"os"
	"os/exec"
	"path/filepath"
	"regexp"
	"sort"
	"strconv"
	"strings"
	"sync"
	"time"

	"github.com/relab/gorums"
	"google.golang.org/protobuf/proto"
	"google.golang.org/protobuf/reflect/protodesc"
	"google.golang.org/protobuf/types/descriptorpb"
	"google.golang.org/protobuf/types/known/emptypb"
	"google.golang.org/protobuf/types/pluginpb"
)

type genMethod struct {
	Ct []string `json:"ct"`
	Pn bool     `json:"pn"`
	Cu bool     `json:"cu"`
	Cs bool     `json:"cs"`
	Ss bool     `json:"ss"`
	Io string   `json:"io"`
	V  string   `json:"v"`
}

type genSvc struct {
	Methods  []genMethod `json:"methods"`
	Reserved string      `json:"reserved"`
	Nsvc     int         `json:"nsvc"`
	Ext      string      `json:"ext"`
	Naming   string      `json:"naming"`
	Verdict  string      `json:"verdict"`
}

func genField(name string, num int32) *descriptorpb.FieldDescriptorProto {
	return &descriptorpb.FieldDescriptorProto{
		Name: proto.String(name), JsonName: proto.String(name), Number: proto.Int32(num),
		Type:  descriptorpb.FieldDescriptorProto_TYPE_INT64.Enum(),
		Label: descriptorpb.FieldDescriptorProto_LABEL_OPTIONAL.Enum(),
	}
}

func genMethodOptions(m genMethod) *descriptorpb.MethodOptions {
	o := &descriptorpb.MethodOptions{}
	for _, c := range m.Ct {
		switch c {
		case "quorumcall":
			proto.SetExtension(o, gorums.E_Quorumcall, true)
		case "async":
			proto.SetExtension(o, gorums.E_Async, true)
		case "correctable":
			proto.SetExtension(o, gorums.E_Correctable, true)
		case "multicast":
			proto.SetExtension(o, gorums.E_Multicast, true)
		case "unicast":
			proto.SetExtension(o, gorums.E_Unicast, true)
		}
	}
	if m.Pn {
		proto.SetExtension(o, gorums.E_PerNodeArg, true)
	}
	if m.Cu {
		proto.SetExtension(o, gorums.E_CustomReturnType, "Agg")
	}
	return o
}

// rpcNames gives the name of method k as written in the proto file under the
// naming style, and the Go name protoc-gen-go derives from it (GoCamelCase).
func rpcNames(naming string, k int) (protoName, goName string) {
	switch naming {
	case "lowerCamel":
		return fmt.Sprintf("m%dCall", k), fmt.Sprintf("M%dCall", k)
	case "snake":
		return fmt.Sprintf("m%d_call", k), fmt.Sprintf("M%dCall", k)
	case "lower":
		return fmt.Sprintf("m%d", k), fmt.Sprintf("M%d", k)
	}
	return fmt.Sprintf("M%d", k), fmt.Sprintf("M%d", k)
}

func usesExt(s genSvc) bool {
	for _, m := range s.Methods {
		if m.Io == "extin" || m.Io == "extout" {
			return true
		}
	}
	return false
}

// genExtFile builds the descriptor of the file a service definition imports a
// message from; its Go package is named s.Ext.
func genExtFile(i int, s genSvc) *descriptorpb.FileDescriptorProto {
	return &descriptorpb.FileDescriptorProto{
		Name:    proto.String(fmt.Sprintf("s%dx.proto", i)),
		Package: proto.String(fmt.Sprintf("s%dx", i)),
		Syntax:  proto.String("proto3"),
		Options: &descriptorpb.FileOptions{GoPackage: proto.String(fmt.Sprintf("genmod/s%dx/%s;%s", i, s.Ext, s.Ext))},
		MessageType: []*descriptorpb.DescriptorProto{
			{Name: proto.String("Msg"), Field: []*descriptorpb.FieldDescriptorProto{genField("x", 1)}},
		},
	}
}

// genFile builds the descriptor of service definition i.
func genFile(i int, s genSvc) *descriptorpb.FileDescriptorProto {
	pkg := fmt.Sprintf("s%d", i)
	fd := &descriptorpb.FileDescriptorProto{
		Name:       proto.String(pkg + ".proto"),
		Package:    proto.String(pkg),
		Syntax:     proto.String("proto3"),
		Dependency: []string{"gorums.proto", "google/protobuf/empty.proto"},
		Options:    &descriptorpb.FileOptions{GoPackage: proto.String("genmod/" + pkg + ";" + pkg)},
		MessageType: []*descriptorpb.DescriptorProto{
			{Name: proto.String("Req"), Field: []*descriptorpb.FieldDescriptorProto{genField("a", 1)}},
			{Name: proto.String("Rep"), Field: []*descriptorpb.FieldDescriptorProto{genField("b", 1)}},
			{Name: proto.String("Agg"), Field: []*descriptorpb.FieldDescriptorProto{genField("c", 1)}},
		},
	}
	if s.Reserved != "" {
		fd.MessageType = append(fd.MessageType, &descriptorpb.DescriptorProto{Name: proto.String(s.Reserved),
			Field: []*descriptorpb.FieldDescriptorProto{genField("d", 1)}})
	}
	svc := &descriptorpb.ServiceDescriptorProto{Name: proto.String("Svc")}
	for k, m := range s.Methods {
		in, out := "."+pkg+".Req", "."+pkg+".Rep"
		switch m.Io {
		case "emptyin":
			in = ".google.protobuf.Empty"
		case "emptyout":
			out = ".google.protobuf.Empty"
		case "extin":
			in = "." + pkg + "x.Msg"
		case "extout":
			out = "." + pkg + "x.Msg"
		}
		protoName, _ := rpcNames(s.Naming, k+1)
		md := &descriptorpb.MethodDescriptorProto{
			Name: proto.String(protoName), InputType: proto.String(in), OutputType: proto.String(out),
			Options: genMethodOptions(m),
		}
		if m.Cs {
			md.ClientStreaming = proto.Bool(true)
		}
		if m.Ss {
			md.ServerStreaming = proto.Bool(true)
		}
		svc.Method = append(svc.Method, md)
	}
	fd.Service = []*descriptorpb.ServiceDescriptorProto{svc}
	if usesExt(s) {
		fd.Dependency = append(fd.Dependency, pkg+"x.proto")
	}
	if s.Nsvc == 2 {
		o := &descriptorpb.MethodOptions{}
		proto.SetExtension(o, gorums.E_Quorumcall, true)
		fd.Service = append(fd.Service, &descriptorpb.ServiceDescriptorProto{Name: proto.String("Svc2"),
			Method: []*descriptorpb.MethodDescriptorProto{{Name: proto.String("N1"), InputType: proto.String("." + pkg + ".Req"),
				OutputType: proto.String("." + pkg + ".Rep"), Options: o}}})
	}
	return fd
}

type pluginRun struct {
	exit    int
	timeout bool
	stderr  string
	errResp string
	files   map[string]string
}

func runPluginOnce(plugin string, req []byte, param string) pluginRun {
	ctx, cancel := context.WithTimeout(context.Background(), 30*time.Second)
	defer cancel()
	cmd := exec.CommandContext(ctx, plugin)
	cmd.Stdin = bytes.NewReader(req)
	var out, errb bytes.Buffer
	cmd.Stdout, cmd.Stderr = &out, &errb
	err := cmd.Run()
	r := pluginRun{stderr: errb.String(), files: map[string]string{}}
	if ctx.Err() != nil {
		r.timeout = true
		return r
	}
	if err != nil {
		r.exit = 1
		if ee, ok := err.(*exec.ExitError); ok {
			r.exit = ee.ExitCode()
		}
		return r
	}
	resp := &pluginpb.CodeGeneratorResponse{}
	if e := proto.Unmarshal(out.Bytes(), resp); e != nil {
		r.exit = -1
		r.stderr += "unparsable response: " + e.Error()
		return r
	}
	r.errResp = resp.GetError()
	for _, f := range resp.File {
		r.files[f.GetName()] = f.GetContent()
	}
	return r
}

func sameRuns(a, b pluginRun) bool {
	if a.exit != b.exit || a.timeout != b.timeout || a.errResp != b.errResp || len(a.files) != len(b.files) {
		return false
	}
	for k, v := range a.files {
		if b.files[k] != v {
			return false
		}
	}
	return true
}

var reStrLit = regexp.MustCompile(`^"(.*)"$`)

// extractBindings reads, with go/ast, what the generated code binds each method to.
func extractBindings(src string) (map[string]map[string]interface{}, error) {
	fset := token.NewFileSet()
	f, err := parser.ParseFile(fset, "gen.go", src, 0)
	if err != nil {
		return nil, err
	}
	out := map[string]map[string]interface{}{}
	registered := map[string]string{} // impl method -> registered name
	serverKind := map[string]string{}
	for _, d := range f.Decls {
		fn, ok := d.(*ast.FuncDecl)
		if !ok {
			continue
		}
		if fn.Recv == nil && strings.HasPrefix(fn.Name.Name, "Register") && strings.HasSuffix(fn.Name.Name, "Server") {
			ast.Inspect(fn.Body, func(n ast.Node) bool {
				call, ok := n.(*ast.CallExpr)
				if !ok {
					return true
				}
				sel, ok := call.Fun.(*ast.SelectorExpr)
				if !ok || sel.Sel.Name != "RegisterHandler" || len(call.Args) != 2 {
					return true
				}
				lit, ok := call.Args[0].(*ast.BasicLit)
				if !ok {
					return true
				}
				name, _ := strconv.Unquote(lit.Value)
				kind := "oneway"
				impl := ""
				ast.Inspect(call.Args[1], func(m ast.Node) bool {
					if c2, ok := m.(*ast.CallExpr); ok {
						if s2, ok := c2.Fun.(*ast.SelectorExpr); ok {
							if id, ok := s2.X.(*ast.Ident); ok && id.Name == "impl" {
								impl = s2.Sel.Name
								switch len(c2.Args) {
								case 3:
									kind = "stream"
								}
							}
						}
						if id, ok := c2.Fun.(*ast.SelectorExpr); ok && id.Sel.Name == "SendMessage" && kind == "oneway" {
							kind = "unary"
						}
						if id, ok := c2.Fun.(*ast.Ident); ok && id.Name == "SendMessage" && kind == "oneway" {
							kind = "unary"
						}
					}
					return true
				})
				if impl != "" {
					registered[impl] = name
					serverKind[impl] = kind
				}
				return true
			})
			continue
		}
		if fn.Recv == nil || len(fn.Recv.List) != 1 || fn.Body == nil {
			continue
		}
		recv := ""
		if st, ok := fn.Recv.List[0].Type.(*ast.StarExpr); ok {
			if id, ok := st.X.(*ast.Ident); ok {
				recv = id.Name
			}
		}
		if recv != "Node" && recv != "Configuration" {
			continue
		}
		b := map[string]interface{}{"recv": recv, "entry": "", "method": "", "sstream": false, "pernode": false, "qf": ""}
		ast.Inspect(fn.Body, func(n ast.Node) bool {
			switch x := n.(type) {
			case *ast.CompositeLit:
				for _, el := range x.Elts {
					kv, ok := el.(*ast.KeyValueExpr)
					if !ok {
						continue
					}
					k, _ := kv.Key.(*ast.Ident)
					if k == nil {
						continue
					}
					switch k.Name {
					case "Method":
						if lit, ok := kv.Value.(*ast.BasicLit); ok {
							b["method"], _ = strconv.Unquote(lit.Value)
						}
					case "ServerStream":
						if id, ok := kv.Value.(*ast.Ident); ok {
							b["sstream"] = id.Name == "true"
						}
					}
				}
			case *ast.AssignStmt:
				if len(x.Lhs) == 1 {
					if sel, ok := x.Lhs[0].(*ast.SelectorExpr); ok && sel.Sel.Name == "PerNodeArgFn" {
						b["pernode"] = true
					}
				}
			case *ast.CallExpr:
				if sel, ok := x.Fun.(*ast.SelectorExpr); ok {
					switch sel.Sel.Name {
					case "RPCCall", "QuorumCall", "AsyncCall", "CorrectableCall", "Multicast", "Unicast":
						if inner, ok := sel.X.(*ast.SelectorExpr); ok && (inner.Sel.Name == "RawNode" || inner.Sel.Name == "RawConfiguration") {
							b["entry"] = sel.Sel.Name
						}
					}
					if strings.HasSuffix(sel.Sel.Name, "QF") {
						if inner, ok := sel.X.(*ast.SelectorExpr); ok && inner.Sel.Name == "qspec" {
							b["qf"] = sel.Sel.Name
						}
					}
				}
			}
			return true
		})
		if b["entry"] != "" {
			out[fn.Name.Name] = b
		}
	}
	for name, b := range out {
		b["registered"] = registered[name]
		b["server"] = serverKind[name]
	}
	return out, nil
}

// cmdGen runs the plugin built from the working tree on every service
// definition TLC enumerated (C16), compiles what it emits, and extracts the
// method bindings of the generated code (C17).
func cmdGen(args []string) error {
	fs := flag.NewFlagSet("gen", flag.ExitOnError)
	svcs := fs.String("svcs", "", "service definitions generated by GenGen.tla")
	out := fs.String("out", "", "trace output (ndjson)")
	plugin := fs.String("plugin", "", "protoc-gen-gorums built from the working tree")
	genGo := fs.String("protoc-gen-go", "", "protoc-gen-go")
	moddir := fs.String("moddir", "", "scratch module directory for the generated packages")
	harness := fs.String("harness", "", "harness directory (go.mod / go.sum to copy)")
	seed := fs.Int64("seed", 1, "seed for subset selection")
	max := fs.Int("max", 0, "at most this many service definitions (0 = all)")
	fs.Parse(args)
	var all []genSvc
	err := readTLCJSONLines(*svcs, func(line []byte) error {
		var s genSvc
		if err := json.Unmarshal(line, &s); err != nil {
			return err
		}
		all = append(all, s)
		return nil
	})
	if err != nil {
		return err
	}
	sort.Slice(all, func(i, j int) bool { return fmt.Sprint(all[i]) < fmt.Sprint(all[j]) })
	rng := rand.New(rand.NewSource(*seed))
	rng.Shuffle(len(all), func(i, j int) { all[i], all[j] = all[j], all[i] })
	total := len(all)
	if *max > 0 && len(all) > *max {
		all = all[:*max]
	}
	if err := os.MkdirAll(*moddir, 0o755); err != nil {
		return err
	}
	gomod, err := os.ReadFile(filepath.Join(*harness, "go.mod"))
	if err != nil {
		return err
	}
	gomod = bytes.Replace(gomod, []byte("module verif/harness"), []byte("module genmod"), 1)
	os.WriteFile(filepath.Join(*moddir, "go.mod"), gomod, 0o644)
	gosum, _ := os.ReadFile(filepath.Join(*harness, "go.sum"))
	os.WriteFile(filepath.Join(*moddir, "go.sum"), gosum, 0o644)
	deps := []*descriptorpb.FileDescriptorProto{
		protodesc.ToFileDescriptorProto(descriptorpb.File_google_protobuf_descriptor_proto),
		protodesc.ToFileDescriptorProto(gorums.File_gorums_proto),
		protodesc.ToFileDescriptorProto(emptypb.File_google_protobuf_empty_proto),
	}
	type result struct {
		o        map[string]interface{}
		stderr   string
		bindings map[string]map[string]interface{}
	}
	results := make([]result, len(all))
	// partners for joint requests: an accepted service is also generated together with another
	// accepted one (two files, two Go packages, one plugin run, both orders).  The services use
	// the same rpc names, so methods of different call types share a Go name across the files.
	var plain []int
	for i := range all {
		if all[i].Verdict == "accept" && !usesExt(all[i]) {
			plain = append(plain, i)
		}
	}
	partner := map[int]int{}
	for k, i := range plain {
		if len(plain) > 1 {
			partner[i] = plain[(k+1)%len(plain)]
		}
	}
	var wg sync.WaitGroup
	sem := make(chan struct{}, 16)
	for i := range all {
		wg.Add(1)
		sem <- struct{}{}
		go func(i int) {
			defer wg.Done()
			defer func() { <-sem }()
			fd := genFile(i, all[i])
			protoFiles := append([]*descriptorpb.FileDescriptorProto{}, deps...)
			var xb []byte
			if usesExt(all[i]) {
				xfd := genExtFile(i, all[i])
				protoFiles = append(protoFiles, xfd)
				xreq := &pluginpb.CodeGeneratorRequest{FileToGenerate: []string{xfd.GetName()}, Parameter: proto.String("paths=source_relative"),
					ProtoFile: protoFiles}
				xb, _ = proto.Marshal(xreq)
			}
			req := &pluginpb.CodeGeneratorRequest{FileToGenerate: []string{fd.GetName()}, Parameter: proto.String("paths=source_relative"),
				ProtoFile: append(protoFiles, fd)}
			b, _ := proto.Marshal(req)
			runs := []pluginRun{runPluginOnce(*plugin, b, ""), runPluginOnce(*plugin, b, ""), runPluginOnce(*plugin, b, "")}
			r0 := runs[0]
			same := sameRuns(r0, runs[1]) && sameRuns(r0, runs[2])
			gorumsOut := ""
			for name, content := range r0.files {
				if strings.HasSuffix(name, "_gorums.pb.go") {
					gorumsOut = content
				}
			}
			diag := r0.exit != 0 || r0.errResp != ""
			died := r0.exit != 0 && (strings.TrimSpace(r0.stderr) == "" || strings.Contains(r0.stderr, "panic:") || strings.Contains(r0.stderr, "goroutine "))
			if j, ok := partner[i]; ok && gorumsOut != "" {
				// deterministic also means: what is emitted for a file does not depend on the
				// other files of the request, nor on their order
				fdj := genFile(j, all[j])
				mine := strings.TrimSuffix(fd.GetName(), ".proto") + "_gorums.pb.go"
				for _, order := range [][]*descriptorpb.FileDescriptorProto{{fd, fdj}, {fdj, fd}} {
					jreq := &pluginpb.CodeGeneratorRequest{FileToGenerate: []string{order[0].GetName(), order[1].GetName()},
						Parameter: proto.String("paths=source_relative"), ProtoFile: append(append([]*descriptorpb.FileDescriptorProto{}, deps...), order...)}
					jb, _ := proto.Marshal(jreq)
					jr := runPluginOnce(*plugin, jb, "")
					if jr.files[mine] != gorumsOut {
						same = false
					}
				}
			}
			o := map[string]interface{}{"diag": diag, "out": gorumsOut != "", "compiles": true, "same": same, "timeout": r0.timeout, "died": died}
			res := result{o: o, stderr: firstLine(r0.stderr + r0.errResp)}
			if gorumsOut != "" {
				dir := filepath.Join(*moddir, fmt.Sprintf("s%d", i))
				os.MkdirAll(dir, 0o755)
				os.WriteFile(filepath.Join(dir, fmt.Sprintf("s%d_gorums.pb.go", i)), []byte(gorumsOut), 0o644)
				g := runPluginOnce(*genGo, b, "")
				for name, content := range g.files {
					os.WriteFile(filepath.Join(dir, filepath.Base(name)), []byte(content), 0o644)
				}
				if xb != nil {
					xdir := filepath.Join(*moddir, fmt.Sprintf("s%dx", i), all[i].Ext)
					os.MkdirAll(xdir, 0o755)
					for name, content := range runPluginOnce(*genGo, xb, "").files {
						os.WriteFile(filepath.Join(xdir, filepath.Base(name)), []byte(content), 0o644)
					}
				}
				if bd, err := extractBindings(gorumsOut); err == nil {
					res.bindings = bd
				}
			}
			results[i] = res
		}(i)
	}
	wg.Wait()
	// compile everything that was emitted
	build := exec.Command("go", "build", "-gcflags=-e", "./...")
	build.Dir = *moddir
	build.Env = append(os.Environ(), "GOFLAGS=-mod=mod", "GOPROXY=off", "GOSUMDB=off", "GOTOOLCHAIN=local")
	bo, berr := build.CombinedOutput()
	failing := map[int]string{}
	rePkg := regexp.MustCompile(`(?m)^(?:\./)?s(\d+)/[^:]+:\d+:\d+: (.*)$`)
	for _, m := range rePkg.FindAllStringSubmatch(string(bo), -1) {
		id, _ := strconv.Atoi(m[1])
		if _, ok := failing[id]; !ok {
			failing[id] = m[2]
		}
	}
	if berr != nil && len(failing) == 0 {
		return fmt.Errorf("go build of the generated packages failed for another reason: %v: %s", berr, tail(string(bo), 1500))
	}
	f, err := os.Create(*out)
	if err != nil {
		return err
	}
	defer f.Close()
	w := bufio.NewWriter(f)
	defer w.Flush()
	enc := json.NewEncoder(w)
	c := 0
	nb := 0
	for i, s := range all {
		r := results[i]
		if msg, bad := failing[i]; bad {
			r.o["compiles"] = false
			r.stderr = msg
		}
		c++
		enc.Encode(map[string]interface{}{"ev": "Svc", "c": c, "i": i, "svc": s, "o": r.o, "msg": r.stderr})
		if s.Verdict == "accept" && r.bindings != nil {
			for k, m := range s.Methods {
				protoName, goname := rpcNames(s.Naming, k+1)
				b, ok := r.bindings[goname]
				if !ok {
					b = map[string]interface{}{"recv": "", "entry": "", "method": "", "sstream": false, "pernode": false, "qf": "", "registered": "", "server": ""}
				}
				c++
				nb++
				enc.Encode(map[string]interface{}{"ev": "Bind", "c": c, "i": i, "m": m, "full": fmt.Sprintf("s%d.Svc.%s", i, protoName), "goname": goname, "naming": s.Naming, "svc": s, "b": b})
			}
		}
	}
	fmt.Printf("gen: %d of %d service definitions, %d bindings, %d packages fail to compile\n", len(all), total, nb, len(failing))
	return nil
}

func firstLine(s string) string {
	s = strings.TrimSpace(s)
	if i := strings.IndexByte(s, '\n'); i >= 0 {
		s = s[:i]
	}
	if len(s) > 200 {
		s = s[:200]
	}
	return s
}
