package main

import (
	"bufio"
	"bytes"
	"encoding/json"
	"flag"
	"fmt"
	"os"
	"os/exec"
	"sync"
	"time"

	"verif/harness/drive"
	"verif/harness/vtrace"
)

var lifeAlphabet = map[string]bool{
	"StubCall": true, "CtxEnd": true, "StubRet": true, "CallServed": true, "CloseCall": true, "CloseReturned": true,
	"SenderExit": true, "ReceiverExit": true, "Quiescent": true, "MustServe": true,
	"HAccept": true, "SrvAccept": true, "MetadataExpected": true, "MetadataDone": true, "Routers": true,
}

// the FIFO monitor's alphabet, for the C03 scenarios
var lifeFifoAlphabet = map[string]bool{"StubCall": true, "StubRet": true, "HandOffWait": true, "CtxEnd": true, "HStart": true,
	"HRelease": true, "HReturn": true}

// cmdLife1 runs one lifecycle scenario in this process and writes its events.
func cmdLife1(args []string) error {
	fs := flag.NewFlagSet("life1", flag.ExitOnError)
	prop := fs.String("prop", "", "property")
	name := fs.String("scen", "", "scenario name")
	kind := fs.String("kind", "Rpc", "call kind")
	out := fs.String("out", "", "output (ndjson)")
	quiet := fs.Int("quiet", 1500, "quiescence period in ms")
	allout := fs.String("allout", "", "second output with every recorded event (for the transport-level validation)")
	fs.Parse(args)
	drive.QuietT = time.Duration(*quiet) * time.Millisecond
	var sc *drive.LifeScenario
	for i, s := range drive.LifeScenarios[*prop] {
		if s.Name == *name {
			sc = &drive.LifeScenarios[*prop][i]
		}
	}
	if sc == nil {
		return fmt.Errorf("no scenario %s/%s", *prop, *name)
	}
	tr := vtrace.New()
	err := sc.Run(tr, *kind)
	events := tr.Events(0)
	tr.Stop()
	w, werr := vtrace.NewWriter(*out)
	if werr != nil {
		return werr
	}
	hdr := map[string]interface{}{"ev": "Scen", "name": *name, "kind": *kind, "prop": *prop, "tok": 0, "node": 0, "msg": 0, "infeasible": ""}
	if err != nil {
		hdr["infeasible"] = err.Error()
	}
	w.WriteRaw(hdr)
	if *allout != "" {
		aw, aerr := vtrace.NewWriter(*allout)
		if aerr != nil {
			return aerr
		}
		aw.WriteRaw(hdr)
		for _, e := range events {
			aw.Write(0, e)
		}
		if aerr := aw.Close(); aerr != nil {
			return aerr
		}
	}
	alphabet := lifeAlphabet
	if *prop == "C03" {
		alphabet = lifeFifoAlphabet
	}
	for _, e := range events {
		if alphabet[e.Ev] || os.Getenv("VERIF_ALLEV") != "" {
			if e.Ev == "CloseReturned" {
				if _, ok := e.F["panicked"]; !ok {
					e.F["panicked"] = false
				}
			}
			w.Write(0, e)
		}
	}
	return w.Close()
}

// cmdLife runs every scenario of a property, each in a child process (a wedged
// scenario must not disturb the next one), and concatenates the traces.
func cmdLife(args []string) error {
	fs := flag.NewFlagSet("life", flag.ExitOnError)
	prop := fs.String("prop", "", "property")
	out := fs.String("out", "", "trace output (ndjson)")
	stats := fs.String("stats", "", "statistics (json)")
	quiet := fs.Int("quiet", 1500, "quiescence period in ms")
	par := fs.Int("par", 6, "scenarios run in parallel")
	only := fs.String("only", "", "run only this scenario:kind")
	reps := fs.Int("reps", 1, "repetitions of every scenario")
	allout := fs.String("allout", "", "second output with every recorded event")
	fs.Parse(args)
	type job struct {
		name, kind string
		idx        int
	}
	var jobs []job
	for rep := 0; rep < *reps; rep++ {
		for _, s := range drive.LifeScenarios[*prop] {
			kinds := drive.LifeKinds
			if s.Kind != "" {
				kinds = []string{s.Kind}
			}
			for _, k := range kinds {
				if *only != "" && *only != s.Name+":"+k {
					continue
				}
				jobs = append(jobs, job{s.Name, k, len(jobs)})
			}
		}
	}
	self, _ := os.Executable()
	results := make([][]byte, len(jobs))
	allres := make([][]byte, len(jobs))
	fails := make([]string, len(jobs))
	var wg sync.WaitGroup
	sem := make(chan struct{}, *par)
	start := time.Now()
	for _, j := range jobs {
		wg.Add(1)
		sem <- struct{}{}
		go func(j job) {
			defer wg.Done()
			defer func() { <-sem }()
			tmp := fmt.Sprintf("%s.%d.part", *out, j.idx)
			argv := []string{"120", self, "life1", "-prop", *prop, "-scen", j.name, "-kind", j.kind, "-out", tmp, "-quiet", fmt.Sprint(*quiet)}
			if *allout != "" {
				argv = append(argv, "-allout", tmp+".all")
			}
			cmd := exec.Command("timeout", argv...)
			var ob bytes.Buffer
			cmd.Stdout, cmd.Stderr = &ob, &ob
			if err := cmd.Run(); err != nil {
				fails[j.idx] = fmt.Sprintf("%s:%s: %v: %s", j.name, j.kind, err, tail(ob.String(), 1500))
			}
			b, _ := os.ReadFile(tmp)
			os.Remove(tmp)
			results[j.idx] = b
			if *allout != "" {
				ab, _ := os.ReadFile(tmp + ".all")
				os.Remove(tmp + ".all")
				allres[j.idx] = ab
			}
		}(j)
	}
	wg.Wait()
	f, err := os.Create(*out)
	if err != nil {
		return err
	}
	w := bufio.NewWriter(f)
	nev := 0
	for i, b := range results {
		if len(b) == 0 {
			// the child died: record it; the trace specification accepts no ProcessDied
			rec, _ := json.Marshal(map[string]interface{}{"ev": "Scen", "name": jobs[i].name, "kind": jobs[i].kind, "prop": *prop, "t": i, "tok": 0, "node": 0, "msg": 0, "infeasible": ""})
			w.Write(rec)
			w.WriteByte('\n')
			rec, _ = json.Marshal(map[string]interface{}{"ev": "ProcessDied", "t": i, "tok": 0, "node": 0, "msg": 0, "what": fails[i]})
			w.Write(rec)
			w.WriteByte('\n')
			continue
		}
		for _, line := range bytes.Split(bytes.TrimSpace(b), []byte("\n")) {
			var m map[string]interface{}
			if json.Unmarshal(line, &m) != nil {
				continue
			}
			m["t"] = i
			rec, _ := json.Marshal(m)
			w.Write(rec)
			w.WriteByte('\n')
			nev++
		}
	}
	w.Flush()
	f.Close()
	if *allout != "" {
		af, err := os.Create(*allout)
		if err != nil {
			return err
		}
		aw := bufio.NewWriter(af)
		for i, b := range allres {
			for _, line := range bytes.Split(bytes.TrimSpace(b), []byte("\n")) {
				var m map[string]interface{}
				if json.Unmarshal(line, &m) != nil {
					continue
				}
				m["t"] = i
				rec, _ := json.Marshal(m)
				aw.Write(rec)
				aw.WriteByte('\n')
			}
		}
		aw.Flush()
		af.Close()
	}
	st := map[string]interface{}{"scenarios": len(jobs), "events": nev, "wall_s": time.Since(start).Seconds()}
	b, _ := json.MarshalIndent(st, "", " ")
	if *stats != "" {
		os.WriteFile(*stats, b, 0o644)
	}
	fmt.Printf("life %s: %d scenarios, %d events, %.1fs\n", *prop, len(jobs), nev, time.Since(start).Seconds())
	return nil
}

func tail(s string, n int) string {
	if len(s) > n {
		return s[len(s)-n:]
	}
	return s
}
