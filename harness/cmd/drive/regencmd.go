package main

import (
	"bufio"
	"bytes"
	"encoding/json"
	"flag"
	"fmt"
	"go/ast"
	"go/parser"
	"go/printer"
	"go/token"
	"os"
	"os/exec"
	"path/filepath"
	"sort"
	"strings"

	"google.golang.org/protobuf/proto"
	"google.golang.org/protobuf/reflect/protodesc"
	"google.golang.org/protobuf/reflect/protoreflect"
	"google.golang.org/protobuf/reflect/protoregistry"
	"google.golang.org/protobuf/types/descriptorpb"
	"google.golang.org/protobuf/types/pluginpb"

	// the packages of the repository that contain checked-in generated code
	_ "github.com/relab/gorums/benchmark"
	_ "github.com/relab/gorums/cmd/protoc-gen-gorums/dev"
	_ "github.com/relab/gorums/tests/config"
	_ "github.com/relab/gorums/tests/correctable"
	_ "github.com/relab/gorums/tests/dummy"
	_ "github.com/relab/gorums/tests/metadata"
	_ "github.com/relab/gorums/tests/oneway"
	_ "github.com/relab/gorums/tests/ordering"
	_ "github.com/relab/gorums/tests/qf"
	_ "github.com/relab/gorums/tests/tls"
	_ "github.com/relab/gorums/tests/unresponsive"
)

// normalizeGo parses Go source without comments and prints it canonically.
func normalizeGo(src []byte) (string, error) {
	fset := token.NewFileSet()
	f, err := parser.ParseFile(fset, "x.go", src, 0)
	if err != nil {
		return "", err
	}
	var b bytes.Buffer
	if err := (&printer.Config{Mode: printer.UseSpaces | printer.TabIndent, Tabwidth: 8}).Fprint(&b, fset, f); err != nil {
		return "", err
	}
	return b.String(), nil
}

func firstDiff(a, b string) string {
	la, lb := strings.Split(a, "\n"), strings.Split(b, "\n")
	for i := 0; i < len(la) && i < len(lb); i++ {
		if la[i] != lb[i] {
			return fmt.Sprintf("line %d: committed %q regenerated %q", i+1, la[i], lb[i])
		}
	}
	if len(la) != len(lb) {
		return fmt.Sprintf("length %d vs %d lines", len(la), len(lb))
	}
	return ""
}

func depsOf(fd protoreflect.FileDescriptor, seen map[string]bool, out *[]*descriptorpb.FileDescriptorProto) {
	if seen[fd.Path()] {
		return
	}
	seen[fd.Path()] = true
	imps := fd.Imports()
	for i := 0; i < imps.Len(); i++ {
		depsOf(imps.Get(i).FileDescriptor, seen, out)
	}
	*out = append(*out, protodesc.ToFileDescriptorProto(fd))
}

// cmdRegen regenerates every checked-in *_gorums.pb.go of the root module from
// its compiled-in descriptor with the plugin built from the working tree and
// compares it, comments aside, with the committed file; it also compares the
// bundled static template with the bundle of the dev package (C17).
func cmdRegen(args []string) error {
	fs := flag.NewFlagSet("regen", flag.ExitOnError)
	repo := fs.String("repo", "/repo", "repository root")
	plugin := fs.String("plugin", "", "protoc-gen-gorums built from the working tree")
	out := fs.String("out", "", "trace output (ndjson)")
	bundled := fs.String("bundled", "", "template_static.go produced by --bundle in a scratch copy (optional)")
	fs.Parse(args)
	f, err := os.Create(*out)
	if err != nil {
		return err
	}
	defer f.Close()
	w := bufio.NewWriter(f)
	defer w.Flush()
	enc := json.NewEncoder(w)
	// committed files by base name
	committed := map[string]string{}
	filepath.Walk(*repo, func(p string, info os.FileInfo, err error) error {
		if err != nil {
			return nil
		}
		if info.IsDir() && (info.Name() == ".git" || info.Name() == "examples") {
			return filepath.SkipDir
		}
		if strings.HasSuffix(p, "_gorums.pb.go") {
			rel, _ := filepath.Rel(*repo, p)
			committed[rel] = p
		}
		return nil
	})
	covered := map[string]bool{}
	c := 0
	var files []protoreflect.FileDescriptor
	protoregistry.GlobalFiles.RangeFiles(func(fd protoreflect.FileDescriptor) bool {
		if fd.Services().Len() > 0 {
			files = append(files, fd)
		}
		return true
	})
	sort.Slice(files, func(i, j int) bool { return files[i].Path() < files[j].Path() })
	for _, fd := range files {
		goPkg := ""
		if o, ok := fd.Options().(*descriptorpb.FileOptions); ok && o != nil {
			goPkg = o.GetGoPackage()
		}
		if !strings.Contains(goPkg, "relab/gorums") && !strings.HasPrefix(goPkg, "cmd/protoc-gen-gorums") {
			continue
		}
		// only protos whose Go package directory holds checked-in generated code
		has := false
		for rel := range committed {
			dir := filepath.Dir(rel)
			if strings.HasSuffix(strings.Split(goPkg, ";")[0], dir) {
				has = true
			}
		}
		if !has {
			continue
		}
		var protos []*descriptorpb.FileDescriptorProto
		depsOf(fd, map[string]bool{}, &protos)
		param := "paths=source_relative"
		dev := strings.Contains(goPkg, "protoc-gen-gorums/dev")
		if dev {
			param += ",dev=true"
		}
		req := &pluginpb.CodeGeneratorRequest{FileToGenerate: []string{fd.Path()}, Parameter: proto.String(param), ProtoFile: protos}
		b, _ := proto.Marshal(req)
		r := runPluginOnce(*plugin, b, "")
		if r.exit != 0 || r.errResp != "" {
			c++
			enc.Encode(map[string]interface{}{"ev": "File", "c": c, "path": fd.Path(), "equal": false, "diff": "plugin failed: " + firstLine(r.stderr+r.errResp)})
			continue
		}
		for name, content := range r.files {
			base := filepath.Base(name)
			var match string
			for rel := range committed {
				if filepath.Base(rel) == base && !covered[rel] {
					// the directory of the committed file must be the go package directory of the proto
					if strings.Contains(goPkg, filepath.Dir(rel)) || strings.HasSuffix(strings.Split(goPkg, ";")[0], filepath.Dir(rel)) {
						match = rel
					}
				}
			}
			c++
			if match == "" {
				enc.Encode(map[string]interface{}{"ev": "File", "c": c, "path": name, "equal": false, "diff": "no committed file for regenerated " + name + " (" + goPkg + ")"})
				continue
			}
			covered[match] = true
			old, _ := os.ReadFile(committed[match])
			a, e1 := normalizeGo(old)
			bb, e2 := normalizeGo([]byte(content))
			diff := ""
			if e1 != nil || e2 != nil {
				diff = fmt.Sprintf("parse error: %v %v", e1, e2)
			} else {
				diff = firstDiff(a, bb)
			}
			enc.Encode(map[string]interface{}{"ev": "File", "c": c, "path": match, "equal": diff == "", "diff": diff})
		}
	}
	var rels []string
	for rel := range committed {
		rels = append(rels, rel)
	}
	sort.Strings(rels)
	for _, rel := range rels {
		if !covered[rel] {
			c++
			enc.Encode(map[string]interface{}{"ev": "File", "c": c, "path": rel, "equal": false, "diff": "committed file was not regenerated (no descriptor found)"})
		}
	}
	if *bundled != "" {
		old, _ := os.ReadFile(filepath.Join(*repo, "cmd/protoc-gen-gorums/gengorums/template_static.go"))
		neu, err := os.ReadFile(*bundled)
		diff := ""
		if err != nil {
			diff = "bundle not produced: " + err.Error()
		} else {
			a, e1 := normalizeGo(old)
			bb, e2 := normalizeGo(neu)
			if e1 != nil || e2 != nil {
				diff = fmt.Sprintf("parse error: %v %v", e1, e2)
			} else {
				diff = firstDiff(a, bb)
			}
		}
		c++
		enc.Encode(map[string]interface{}{"ev": "File", "c": c, "path": "cmd/protoc-gen-gorums/gengorums/template_static.go", "equal": diff == "", "diff": diff})
	}
	fmt.Printf("regen: %d files compared\n", c)
	return nil
}

var _ = ast.Inspect
var _ = exec.Command
