package main

import (
	"encoding/json"
	"flag"
	"fmt"
	"math/rand"
	"os"
	"strings"
	"sync"
	"sync/atomic"
	"time"

	"github.com/relab/gorums"
	"google.golang.org/grpc/backoff"
	"google.golang.org/grpc/codes"

	"verif/harness/drive"
	"verif/harness/gen/puppet"
	"verif/harness/puppetsrv"
	"verif/harness/vtrace"
)

var m3Methods = []string{"Rpc", "QC", "QCPerNode", "QCCustom", "QCCombo", "Async", "AsyncPerNode", "AsyncCustom",
	"Corr", "CorrPerNode", "CorrCustom", "CorrStream", "CorrStreamCustom", "Mcast", "McastPerNode", "Ucast"}

// cmdM3 runs seeded free workloads: several goroutines issue mixed calls on
// overlapping configurations of one manager while handlers answer at once,
// late (after the call has ended), or with errors.  Nothing is scheduled; the
// run is recorded and judged by the trace specifications.
func cmdM3(args []string) error {
	fs := flag.NewFlagSet("m3", flag.ExitOnError)
	out := fs.String("out", "", "trace output (ndjson)")
	stats := fs.String("stats", "", "statistics output (json)")
	seed := fs.Int64("seed", 1, "seed")
	runs := fs.Int("runs", 5, "number of runs (sections)")
	gor := fs.Int("goroutines", 6, "client goroutines per run")
	ncalls := fs.Int("calls", 40, "calls per goroutine")
	alpha := fs.String("alphabet", "routing", "event alphabet")
	cancel := fs.String("cancel", "safe", "cancellation: none, safe (only after the requests were sent), any")
	faults := fs.Bool("faults", false, "stop and restart servers at random while the workload runs")
	qfdelay := fs.Int("qfdelay", 0, "percentage of calls with a slow quorum function")
	idjump := fs.Bool("idjump", false, "move the manager's message id counter forward by 2^32 minus a few ids now and then (stands for 2^32 calls made meanwhile)")
	methodsFlag := fs.String("methods", "", "comma-separated subset of the methods (default: all)")
	fs.Parse(args)
	methods := m3Methods
	if *methodsFlag != "" {
		methods = strings.Split(*methodsFlag, ",")
	}
	alphabet := progAlphabets[*alpha]
	all := *alpha == "all"
	if alphabet == nil && !all {
		return fmt.Errorf("unknown alphabet %q", *alpha)
	}
	w, err := vtrace.NewWriter(*out)
	if err != nil {
		return err
	}
	totalCalls, totalEvents := 0, 0
	start := time.Now()
	for run := 0; run < *runs; run++ {
		rng := rand.New(rand.NewSource(*seed*1000 + int64(run)))
		tr := vtrace.New()
		sendbuf := []uint{0, 4}[rng.Intn(2)]
		mopts := []gorums.ManagerOption{gorums.WithSendBufferSize(sendbuf)}
		if *faults {
			mopts = append(mopts, gorums.WithBackoff(backoff.Config{BaseDelay: 10 * time.Millisecond, Multiplier: 1.3, MaxDelay: 50 * time.Millisecond}))
		}
		env, err := drive.NewEnv(tr, drive.EnvOpts{Nodes: 3, MgrOpts: mopts, DialTimeout: 500 * time.Millisecond})
		if err != nil {
			return err
		}
		behSeed := rng.Int63()
		var probing int32
		for _, s := range env.Servers {
			id := s.ID
			s.Auto = func(method string, req *puppet.Req) []puppetsrv.Cmd {
				h := rand.New(rand.NewSource(behSeed ^ int64(req.GetCall())*31 ^ int64(id)*1000003))
				kind := "reply"
				switch method {
				case "CorrStream", "CorrStreamCustom":
					kind = "item"
				case "Mcast", "McastPerNode", "Ucast":
					kind = "done"
				}
				if atomic.LoadInt32(&probing) == 1 {
					// the probe phase: every handler (also one of a request of the
					// workload that arrives only now) answers at once and returns
					cmds := []puppetsrv.Cmd{{Kind: kind, Val: 1}}
					if kind == "item" {
						cmds = append(cmds, puppetsrv.Cmd{Kind: "end"})
					}
					return cmds
				}
				var cmds []puppetsrv.Cmd
				switch x := h.Intn(10); {
				case x < 5: // at once
				case x < 7: // short delay
					cmds = append(cmds, puppetsrv.Cmd{Kind: "sleep", Val: int64(h.Intn(300))})
				case x < 9: // late: most likely after the call has ended
					cmds = append(cmds, puppetsrv.Cmd{Kind: "sleep", Val: int64(1500 + h.Intn(3000))})
				default:
					if kind != "done" {
						return []puppetsrv.Cmd{{Kind: "fail", Code: codes.Code(3 + h.Intn(10)), Msg: fmt.Sprintf("fail-%d-%d", req.GetCall(), id)}}
					}
				}
				cmds = append(cmds, puppetsrv.Cmd{Kind: kind, Val: int64(1 + h.Intn(2))})
				if kind == "item" {
					if h.Intn(2) == 0 {
						cmds = append(cmds, puppetsrv.Cmd{Kind: "item", Val: 1})
					}
					cmds = append(cmds, puppetsrv.Cmd{Kind: "end"})
				}
				return cmds
			}
		}
		r := &drive.Runner{E: env, QFDelayPct: *qfdelay}
		var wg sync.WaitGroup
		var mu sync.Mutex
		var toks []uint64
		finished := make(chan struct{})
		go func() {
			defer close(finished)
			for g := 0; g < *gor; g++ {
				wg.Add(1)
				grng := rand.New(rand.NewSource(rng.Int63()))
				go func() {
					defer wg.Done()
					for i := 0; i < *ncalls; i++ {
						m := methods[grng.Intn(len(methods))]
						size := 1 + grng.Intn(3)
						k := 1 + grng.Intn(size)
						how := "none"
						if *cancel != "none" && grng.Intn(4) == 0 {
							how = *cancel
						}
						tok := r.FreeCall(m, size, k, grng.Intn(2) == 0, how, time.Duration(grng.Intn(2000))*time.Microsecond)
						if tok == 0 {
							return
						}
						mu.Lock()
						toks = append(toks, tok)
						mu.Unlock()
					}
				}()
			}
			stopFaults := make(chan struct{})
			if *idjump {
				// the environment: "2^32 - d calls later".  Message ids are 64 bit wide and manager-wide
				// unique; a process that makes more than 2^32 calls must not see ids repeat while
				// requests with the old ids are still outstanding (C05).  The low 32 bits of the ids
				// issued after the jump are those of the last d calls.
				fwgJ := &sync.WaitGroup{}
				fwgJ.Add(1)
				jrng := rand.New(rand.NewSource(rng.Int63()))
				go func() {
					defer fwgJ.Done()
					for j := 0; j < 40; j++ {
						select {
						case <-stopFaults:
							return
						case <-time.After(time.Duration(3+jrng.Intn(10)) * time.Millisecond):
						}
						cur := tr.MaxMsg()
						d := uint64(1 + jrng.Intn(8))
						if cur&0xFFFFFFFF > d+4 && cur&0xFFFFFFFF < 1<<19 {
							gorums.VerifSetNextMsgID(env.Mgr.RawManager, cur+1<<32-d)
							tr.Emit("IdJump", 0, 0, "from", int64(vtrace.NormMsg(cur)), "back", int64(d))
						}
					}
				}()
				defer fwgJ.Wait()
			}
			var fwg sync.WaitGroup
			if *faults {
				// the environment: a server crashes and comes back every now and then
				fwg.Add(1)
				frng := rand.New(rand.NewSource(rng.Int63()))
				go func() {
					defer fwg.Done()
					for {
						select {
						case <-stopFaults:
							return
						case <-time.After(time.Duration(5+frng.Intn(30)) * time.Millisecond):
						}
						n := 1 + frng.Intn(3)
						env.Server(n).Stop()
						time.Sleep(time.Duration(frng.Intn(15)) * time.Millisecond)
						env.Server(n).Start()
						for i := 0; i < 50 && !gorums.VerifRedialNow(env.Node(n).RawNode); i++ {
							time.Sleep(2 * time.Millisecond)
						}
					}
				}()
			}
			wg.Wait()
			close(stopFaults)
			fwg.Wait()
			if *faults {
				// every server is up again: wait until the transports are ready
				for n := 1; n <= 3; n++ {
					env.Server(n).Start()
					for i := 0; i < 500 && !gorums.VerifRedialNow(env.Node(n).RawNode); i++ {
						time.Sleep(5 * time.Millisecond)
					}
				}
			}
			if *faults {
				// C10: with every server up again, a quorum call that needs all
				// three nodes must succeed (handlers answer at once)
				atomic.StoreInt32(&probing, 1)
				// (the first attempts may still meet a reconnect in progress; C10 speaks of
				// "subsequent calls", so a few attempts are made)
				tag := "none"
				var tok uint64
				attempts := 0
				for ; attempts < 10 && tag != "ok"; attempts++ {
					if attempts > 0 {
						time.Sleep(50 * time.Millisecond)
					}
					from := tr.Len()
					tok = r.FreeCall("QC", 3, 3, false, "none", 0)
					if tok == 0 {
						break
					}
					mu.Lock()
					toks = append(toks, tok)
					mu.Unlock()
					for _, e := range tr.Events(from) {
						if e.Ev == "StubRet" && e.Tok == tok {
							tag, _ = e.F["tag"].(string)
						}
					}
				}
				if tok != 0 {
					tr.Emit("Probe", 0, tok, "ok", tag == "ok", "tag", tag, "attempts", attempts)
				}
			}
			r.Settle(toks)
		}()
		hung := false
		select {
		case <-finished:
		case <-time.After(300 * time.Second):
			// the library is wedged in a way that blocks the harness itself (a
			// server that cannot stop, ...): record it and give up
			hung = true
			tr.Emit("Quiescent", 0, 0, "why", "the run did not finish within 300 s")
		}
		tr.Stop()
		w.WriteRaw(map[string]interface{}{"ev": "Prog", "t": run, "tok": 0, "node": 0, "msg": 0, "sendbuf": sendbuf,
			"prog": map[string]interface{}{"m3": true, "seed": *seed, "run": run, "goroutines": *gor, "calls": *ncalls, "cancel": *cancel, "faults": *faults}})
		for _, e := range tr.Events(0) {
			if all || alphabet[e.Ev] {
				if e.Ev == "Route" {
					for _, k := range []string{"err", "empty"} {
						if _, ok := e.F[k]; !ok {
							e.F[k] = false
						}
					}
				}
				if err := w.Write(run, e); err != nil {
					return err
				}
			}
		}
		mu.Lock()
		totalCalls += len(toks)
		mu.Unlock()
		if hung {
			break
		}
		closed := make(chan struct{})
		go func() { env.Close(); close(closed) }()
		select {
		case <-closed:
			// the goroutines of the closed manager end asynchronously; their last events must not land in
			// the next run's trace
			for i := 0; i < 1000 && drive.LibGoroutines() > 0; i++ {
				time.Sleep(5 * time.Millisecond)
			}
		case <-time.After(30 * time.Second):
			fmt.Println("m3: Close did not return within 30 s; stopping")
			run = *runs
		}
	}
	totalEvents = w.Lines()
	if err := w.Close(); err != nil {
		return err
	}
	st := map[string]interface{}{"runs": *runs, "calls": totalCalls, "events": totalEvents, "wall_s": time.Since(start).Seconds(),
		"samples": []interface{}{map[string]interface{}{"seed": *seed, "goroutines": *gor, "calls_per_goroutine": *ncalls, "cancel": *cancel}}}
	b, _ := json.MarshalIndent(st, "", " ")
	if *stats != "" {
		if err := os.WriteFile(*stats, b, 0o644); err != nil {
			return err
		}
	}
	fmt.Printf("m3: %d runs, %d calls, %d events, %.1fs\n", *runs, totalCalls, totalEvents, time.Since(start).Seconds())
	return nil
}
