// genpuppet regenerates the Puppet service stubs from the working tree of
// relab/gorums: it feeds a CodeGeneratorRequest built from descriptors to
// protoc-gen-go and to protoc-gen-gorums (both given as paths of binaries
// built beforehand) and writes their output below -out.
package main

import (
	"bytes"
	"flag"
	"fmt"
	"os"
	"os/exec"
	"path/filepath"

	"google.golang.org/protobuf/proto"
	"google.golang.org/protobuf/types/pluginpb"

	"verif/harness/puppetdesc"
)

func run(plugin string, req *pluginpb.CodeGeneratorRequest) (*pluginpb.CodeGeneratorResponse, error) {
	in, err := proto.Marshal(req)
	if err != nil {
		return nil, err
	}
	cmd := exec.Command(plugin)
	cmd.Stdin = bytes.NewReader(in)
	var out, errb bytes.Buffer
	cmd.Stdout, cmd.Stderr = &out, &errb
	if err := cmd.Run(); err != nil {
		return nil, fmt.Errorf("%s: %v: %s", plugin, err, errb.String())
	}
	resp := &pluginpb.CodeGeneratorResponse{}
	if err := proto.Unmarshal(out.Bytes(), resp); err != nil {
		return nil, err
	}
	if resp.Error != nil {
		return nil, fmt.Errorf("%s: %s", plugin, resp.GetError())
	}
	return resp, nil
}

func main() {
	genGo := flag.String("protoc-gen-go", "", "path of protoc-gen-go")
	genGorums := flag.String("protoc-gen-gorums", "", "path of protoc-gen-gorums")
	out := flag.String("out", "", "output directory")
	flag.Parse()
	req := &pluginpb.CodeGeneratorRequest{
		FileToGenerate: []string{puppetdesc.FileName},
		Parameter:      proto.String("paths=source_relative"),
		ProtoFile:      append(puppetdesc.Deps(), puppetdesc.File()),
	}
	if err := os.MkdirAll(*out, 0o755); err != nil {
		fmt.Fprintln(os.Stderr, err)
		os.Exit(2)
	}
	for _, p := range []string{*genGo, *genGorums} {
		resp, err := run(p, req)
		if err != nil {
			fmt.Fprintln(os.Stderr, err)
			os.Exit(2)
		}
		for _, f := range resp.File {
			if err := os.WriteFile(filepath.Join(*out, filepath.Base(f.GetName())), []byte(f.GetContent()), 0o644); err != nil {
				fmt.Fprintln(os.Stderr, err)
				os.Exit(2)
			}
		}
	}
}
