module verif/harness

go 1.23

toolchain go1.23.5

require (
	github.com/relab/gorums v0.0.0
	google.golang.org/genproto/googleapis/rpc v0.0.0-20240318140521-94a12d6c2237
	google.golang.org/grpc v1.62.1
	google.golang.org/protobuf v1.33.0
	pgregory.net/rapid v1.3.0
)

require (
	github.com/golang/protobuf v1.5.4 // indirect
	golang.org/x/net v0.22.0 // indirect
	golang.org/x/sync v0.6.0 // indirect
	golang.org/x/sys v0.18.0 // indirect
	golang.org/x/text v0.14.0 // indirect
)

replace github.com/relab/gorums => /repo
