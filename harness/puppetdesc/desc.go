// Package puppetdesc builds, programmatically (protoc is not available
// offline), the file descriptor of the Puppet service: one method per call
// type and option combination that the gorums documentation allows.
package puppetdesc

import (
	"github.com/relab/gorums"
	"google.golang.org/protobuf/proto"
	"google.golang.org/protobuf/reflect/protodesc"
	"google.golang.org/protobuf/types/descriptorpb"
)

const (
	GoPackage = "verif/harness/gen/puppet;puppet"
	FileName  = "puppet.proto"
)

// MethodSpec describes one Puppet method.
type MethodSpec struct {
	Name         string
	CallType     string // "", quorumcall, correctable, multicast, unicast
	Async        bool
	PerNode      bool
	Custom       bool
	ServerStream bool
}

// Methods is the Puppet service.
var Methods = []MethodSpec{
	{Name: "Rpc"},
	{Name: "QC", CallType: "quorumcall"},
	{Name: "QCPerNode", CallType: "quorumcall", PerNode: true},
	{Name: "QCCustom", CallType: "quorumcall", Custom: true},
	{Name: "QCCombo", CallType: "quorumcall", PerNode: true, Custom: true},
	{Name: "Async", CallType: "quorumcall", Async: true},
	{Name: "AsyncPerNode", CallType: "quorumcall", Async: true, PerNode: true},
	{Name: "AsyncCustom", CallType: "quorumcall", Async: true, Custom: true},
	{Name: "Corr", CallType: "correctable"},
	{Name: "CorrPerNode", CallType: "correctable", PerNode: true},
	{Name: "CorrCustom", CallType: "correctable", Custom: true},
	{Name: "CorrStream", CallType: "correctable", ServerStream: true},
	{Name: "CorrStreamCustom", CallType: "correctable", ServerStream: true, Custom: true},
	{Name: "Mcast", CallType: "multicast"},
	{Name: "McastPerNode", CallType: "multicast", PerNode: true},
	{Name: "Ucast", CallType: "unicast"},
}

func field(name string, num int32, t descriptorpb.FieldDescriptorProto_Type) *descriptorpb.FieldDescriptorProto {
	return &descriptorpb.FieldDescriptorProto{
		Name:     proto.String(name),
		JsonName: proto.String(name),
		Number:   proto.Int32(num),
		Type:     t.Enum(),
		Label:    descriptorpb.FieldDescriptorProto_LABEL_OPTIONAL.Enum(),
	}
}

// MethodOptions builds the descriptor options of one method.
func MethodOptions(m MethodSpec, customName string) *descriptorpb.MethodOptions {
	o := &descriptorpb.MethodOptions{}
	switch m.CallType {
	case "quorumcall":
		proto.SetExtension(o, gorums.E_Quorumcall, true)
	case "correctable":
		proto.SetExtension(o, gorums.E_Correctable, true)
	case "multicast":
		proto.SetExtension(o, gorums.E_Multicast, true)
	case "unicast":
		proto.SetExtension(o, gorums.E_Unicast, true)
	}
	if m.Async {
		proto.SetExtension(o, gorums.E_Async, true)
	}
	if m.PerNode {
		proto.SetExtension(o, gorums.E_PerNodeArg, true)
	}
	if m.Custom {
		proto.SetExtension(o, gorums.E_CustomReturnType, customName)
	}
	return o
}

// File returns the descriptor of puppet.proto.
func File() *descriptorpb.FileDescriptorProto {
	u64 := descriptorpb.FieldDescriptorProto_TYPE_UINT64
	u32 := descriptorpb.FieldDescriptorProto_TYPE_UINT32
	i64 := descriptorpb.FieldDescriptorProto_TYPE_INT64
	byt := descriptorpb.FieldDescriptorProto_TYPE_BYTES
	fd := &descriptorpb.FileDescriptorProto{
		Name:       proto.String(FileName),
		Package:    proto.String("puppet"),
		Syntax:     proto.String("proto3"),
		Dependency: []string{"gorums.proto"},
		Options:    &descriptorpb.FileOptions{GoPackage: proto.String(GoPackage)},
		MessageType: []*descriptorpb.DescriptorProto{
			{Name: proto.String("Req"), Field: []*descriptorpb.FieldDescriptorProto{
				field("call", 1, u64), field("tag", 2, u32), field("orig", 3, u64), field("pad", 4, byt),
			}},
			{Name: proto.String("Rep"), Field: []*descriptorpb.FieldDescriptorProto{
				field("call", 1, u64), field("node", 2, u32), field("conn", 3, u64),
				field("serial", 4, u64), field("val", 5, i64), field("tag", 6, u32),
			}},
			{Name: proto.String("Agg"), Field: []*descriptorpb.FieldDescriptorProto{
				field("token", 1, u64), field("val", 2, i64), field("count", 3, u32),
			}},
		},
	}
	svc := &descriptorpb.ServiceDescriptorProto{Name: proto.String("Puppet")}
	for _, m := range Methods {
		md := &descriptorpb.MethodDescriptorProto{
			Name:       proto.String(m.Name),
			InputType:  proto.String(".puppet.Req"),
			OutputType: proto.String(".puppet.Rep"),
			Options:    MethodOptions(m, "Agg"),
		}
		if m.ServerStream {
			md.ServerStreaming = proto.Bool(true)
		}
		svc.Method = append(svc.Method, md)
	}
	fd.Service = []*descriptorpb.ServiceDescriptorProto{svc}
	return fd
}

// Deps returns the descriptors puppet.proto depends on, in dependency order.
func Deps() []*descriptorpb.FileDescriptorProto {
	return []*descriptorpb.FileDescriptorProto{
		protodesc.ToFileDescriptorProto(descriptorpb.File_google_protobuf_descriptor_proto),
		protodesc.ToFileDescriptorProto(gorums.File_gorums_proto),
	}
}
