// Package vtrace is the tracer behind the verif hooks of relab/gorums: it
// totally orders hook events and harness events with one sequence counter,
// lets a driver wait for an event (lock-step replay), lets it hold library
// goroutines at gate hooks (schedule replay), and writes ndjson for TLC.
package vtrace

import (
	"bufio"
	"context"
	"encoding/json"
	"fmt"
	"os"
	"sync"
	"time"

	"github.com/relab/gorums"
)

type tokKey struct{}

// WithToken returns a context carrying the harness call token.
func WithToken(ctx context.Context, tok uint64) context.Context {
	return context.WithValue(ctx, tokKey{}, tok)
}

// Event is one recorded event.
type Event struct {
	Seq  int
	Ev   string
	Node uint32
	Msg  uint64
	Tok  uint64
	Gate bool
	F    map[string]interface{}
}

// Bool, Int and Str return a field of the event (zero value if absent).
func (e Event) Bool(k string) bool {
	b, _ := e.F[k].(bool)
	return b
}

func (e Event) Int(k string) int64 {
	switch v := e.F[k].(type) {
	case int:
		return int64(v)
	case int64:
		return v
	case uint32:
		return int64(v)
	case uint64:
		return int64(v)
	case float64:
		return int64(v)
	}
	return 0
}

func (e Event) Str(k string) string {
	s, _ := e.F[k].(string)
	return s
}

// Gate holds goroutines that arrive at matching gate hooks.
type Gate struct {
	anyEvent bool
	t       *Tracer
	match   func(e Event) bool
	mu      sync.Mutex
	open    bool
	waiting int
	ch      chan struct{}
	arrived chan struct{}
}

// Tracer records events.
type Tracer struct {
	maxMsg uint64
	mu      sync.Mutex
	events  []Event
	seq     int
	changed chan struct{}
	msgTok  map[uint64]uint64
	conns   map[interface{}]uint64
	nconn   uint64
	gates   []*Gate
	perturb func(ev string, node uint32, msg uint64)
	off     bool
}

// New returns a tracer and installs it as the gorums verif hook.
func New() *Tracer {
	t := &Tracer{changed: make(chan struct{}), msgTok: map[uint64]uint64{}, conns: map[interface{}]uint64{}}
	gorums.VerifSetHook(t.hook)
	return t
}

// SetPerturb installs a function called (outside the tracer lock) at every
// gate hook; used for seeded delays in free runs.
func (t *Tracer) SetPerturb(f func(ev string, node uint32, msg uint64)) {
	t.mu.Lock()
	t.perturb = f
	t.mu.Unlock()
}

// ConnID maps a server-side stream context to a small connection id.
func (t *Tracer) ConnID(ctx interface{}) uint64 {
	t.mu.Lock()
	defer t.mu.Unlock()
	return t.connIDLocked(ctx)
}

func (t *Tracer) connIDLocked(ctx interface{}) uint64 {
	if sc, ok := ctx.(gorums.ServerCtx); ok {
		ctx = sc.Context
	}
	if sc, ok := ctx.(*gorums.ServerCtx); ok {
		ctx = sc.Context
	}
	id, ok := t.conns[ctx]
	if !ok {
		t.nconn++
		id = t.nconn
		t.conns[ctx] = id
	}
	return id
}

func (t *Tracer) hook(gate bool, ev string, node uint32, msg uint64, kv []interface{}) {
	rec := t.record(gate, ev, node, msg, 0, kv)
	if gate {
		t.mu.Lock()
		p := t.perturb
		var held *Gate
		for _, g := range t.gates {
			if g.match(rec) {
				held = g
				break
			}
		}
		t.mu.Unlock()
		if p != nil {
			p(ev, node, msg)
		}
		if held != nil {
			held.wait()
		}
		return
	}
	// a hold on an ordinary event (only for events that are logged outside every critical section)
	t.mu.Lock()
	var held *Gate
	for _, g := range t.gates {
		if g.anyEvent && g.match(rec) {
			held = g
			break
		}
	}
	t.mu.Unlock()
	if held != nil {
		held.wait()
	}
}

// Emit records a harness event.
func (t *Tracer) Emit(ev string, node uint32, tok uint64, kv ...interface{}) {
	t.record(false, ev, node, 0, tok, kv)
}

func (t *Tracer) record(gate bool, ev string, node uint32, msg uint64, tok uint64, kv []interface{}) Event {
	f := make(map[string]interface{}, len(kv)/2)
	t.mu.Lock()
	if t.off {
		t.mu.Unlock()
		return Event{Ev: ev, Node: node, Msg: msg, F: f}
	}
	for i := 0; i+1 < len(kv); i += 2 {
		k, _ := kv[i].(string)
		switch k {
		case "ctx":
			if c, ok := kv[i+1].(context.Context); ok && c != nil {
				if v, ok := c.Value(tokKey{}).(uint64); ok {
					tok = v
					if msg != 0 {
						t.msgTok[msg] = v
					}
				}
			}
		case "conn":
			f["conn"] = t.connIDLocked(kv[i+1])
		default:
			switch v := kv[i+1].(type) {
			case float64:
				f[k] = int64(v)
			default:
				f[k] = v
			}
		}
	}
	if tok == 0 && msg != 0 {
		tok = t.msgTok[msg]
	}
	if msg > t.maxMsg {
		t.maxMsg = msg
	}
	t.seq++
	rec := Event{Seq: t.seq, Ev: ev, Node: node, Msg: msg, Tok: tok, Gate: gate, F: f}
	t.events = append(t.events, rec)
	ch := t.changed
	t.changed = make(chan struct{})
	t.mu.Unlock()
	close(ch)
	return rec
}

// Len returns the number of events recorded so far.
func (t *Tracer) Len() int {
	t.mu.Lock()
	defer t.mu.Unlock()
	return len(t.events)
}

// Await waits until an event at index >= from satisfies pred and returns its
// index, or -1 after the timeout.
func (t *Tracer) Await(from int, timeout time.Duration, pred func(Event) bool) int {
	deadline := time.NewTimer(timeout)
	defer deadline.Stop()
	i := from
	for {
		t.mu.Lock()
		for ; i < len(t.events); i++ {
			if pred(t.events[i]) {
				t.mu.Unlock()
				return i
			}
		}
		ch := t.changed
		t.mu.Unlock()
		select {
		case <-ch:
		case <-deadline.C:
			return -1
		}
	}
}

// Quiet waits until no event has been recorded for d (or max elapsed) and
// reports whether quiescence was reached.
func (t *Tracer) Quiet(d, max time.Duration) bool {
	end := time.Now().Add(max)
	for {
		t.mu.Lock()
		ch := t.changed
		t.mu.Unlock()
		select {
		case <-ch:
			if time.Now().After(end) {
				return false
			}
		case <-time.After(d):
			return true
		}
	}
}

// Events returns a copy of the events from index from.
func (t *Tracer) Events(from int) []Event {
	t.mu.Lock()
	defer t.mu.Unlock()
	return append([]Event(nil), t.events[from:]...)
}

// Reset drops all recorded events (between scenarios).
func (t *Tracer) Reset() {
	t.mu.Lock()
	t.events = nil
	t.mu.Unlock()
}

// Stop makes the tracer ignore further events.
func (t *Tracer) Stop() {
	t.mu.Lock()
	t.off = true
	t.mu.Unlock()
}

// NewHold installs a closed gate that also holds goroutines at matching ordinary events.  Only for
// events that the library logs outside every critical section (SenderExit).
func (t *Tracer) NewHold(match func(e Event) bool) *Gate {
	g := t.NewGate(match)
	g.mu.Lock()
	g.anyEvent = true
	g.mu.Unlock()
	return g
}

// NewGate installs a closed gate for the matching gate hooks.
func (t *Tracer) NewGate(match func(e Event) bool) *Gate {
	g := &Gate{t: t, match: match, ch: make(chan struct{}), arrived: make(chan struct{}, 1024)}
	t.mu.Lock()
	t.gates = append(t.gates, g)
	t.mu.Unlock()
	return g
}

func (g *Gate) wait() {
	g.mu.Lock()
	if g.open {
		g.mu.Unlock()
		return
	}
	g.waiting++
	ch := g.ch
	g.mu.Unlock()
	select {
	case g.arrived <- struct{}{}:
	default:
	}
	<-ch
}

// Arrived waits until a goroutine is held at the gate.
func (g *Gate) Arrived(timeout time.Duration) bool {
	g.mu.Lock()
	w := g.waiting
	g.mu.Unlock()
	if w > 0 {
		return true
	}
	select {
	case <-g.arrived:
		return true
	case <-time.After(timeout):
		return false
	}
}

// Waiting returns the number of goroutines currently held.
func (g *Gate) Waiting() int {
	g.mu.Lock()
	defer g.mu.Unlock()
	return g.waiting
}

// ReleaseOnce lets the goroutines currently held pass; the gate stays closed
// for later arrivals.
func (g *Gate) ReleaseOnce() {
	g.mu.Lock()
	ch := g.ch
	g.ch = make(chan struct{})
	g.waiting = 0
	g.mu.Unlock()
	close(ch)
}

// Open opens the gate for good and removes it.
func (g *Gate) Open() {
	g.mu.Lock()
	if !g.open {
		g.open = true
		close(g.ch)
		g.waiting = 0
	}
	g.mu.Unlock()
	g.t.mu.Lock()
	for i, x := range g.t.gates {
		if x == g {
			g.t.gates = append(g.t.gates[:i:i], g.t.gates[i+1:]...)
			break
		}
	}
	g.t.mu.Unlock()
}

// Writer writes events as ndjson.
type Writer struct {
	f *os.File
	w *bufio.Writer
	n int
}

// NewWriter creates the ndjson file.
func NewWriter(path string) (*Writer, error) {
	f, err := os.Create(path)
	if err != nil {
		return nil, err
	}
	return &Writer{f: f, w: bufio.NewWriterSize(f, 1<<20)}, nil
}

// Lines returns the number of lines written.
func (w *Writer) Lines() int { return w.n }

// NormMsg maps a message id to a number TLC can hold (its integers are 32 bit):
// ids beyond 2^31 - the id space is 64 bit wide, and some workloads move the
// manager's counter forward by multiples of 2^32 to stand for the 2^32 calls a
// long-lived process makes - are folded to (id / 2^32) * 2^20 + id mod 2^32,
// which is injective as long as the low part stays below 2^20 and the high part
// below 2^11 (the workloads see to that).
func NormMsg(id uint64) uint64 {
	if id < 1<<31 {
		return id
	}
	return (id>>32)<<20 + (id & 0xFFFFFFFF)
}

// MaxMsg returns the largest message id seen in any event so far.
func (t *Tracer) MaxMsg() uint64 {
	t.mu.Lock()
	defer t.mu.Unlock()
	return t.maxMsg
}

// Write appends one event; t is the scenario index inside the file.
func (w *Writer) Write(t int, e Event) error {
	m := make(map[string]interface{}, len(e.F)+6)
	for k, v := range e.F {
		m[k] = v
	}
	m["t"] = t
	m["seq"] = e.Seq
	m["ev"] = e.Ev
	m["node"] = e.Node
	m["msg"] = NormMsg(e.Msg)
	m["tok"] = e.Tok
	b, err := json.Marshal(m)
	if err != nil {
		return fmt.Errorf("event %v: %w", e, err)
	}
	w.n++
	w.w.Write(b)
	return w.w.WriteByte('\n')
}

// WriteRaw appends one record that is not a hook event (scenario headers).
func (w *Writer) WriteRaw(m map[string]interface{}) error {
	b, err := json.Marshal(m)
	if err != nil {
		return err
	}
	w.n++
	w.w.Write(b)
	return w.w.WriteByte('\n')
}

// Close flushes and closes the file.
func (w *Writer) Close() error {
	if err := w.w.Flush(); err != nil {
		return err
	}
	return w.f.Close()
}
