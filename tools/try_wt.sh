#!/bin/bash
# try_wt.sh <worktree> <patch.diff> <property> [tier] : run a property's check against a scratch worktree of
# relab/gorums with a change applied, from a private copy of /verif's HEAD (so that /repo and /verif stay
# untouched and several changes can be tried in parallel).  Prints the verdict lines.
WT=$1; PATCH=$2; PROP=$3; TIER=${4:-quick}
export GOFLAGS=-mod=mod GOPROXY=off GOSUMDB=off GOTOOLCHAIN=local
VC=$(mktemp -d /tmp/vc-XXXXXX)
git -C /verif archive HEAD | tar -x -C $VC
sed -i "s#=> /repo#=> $WT#" $VC/harness/go.mod
git -C $WT checkout -q -- . && git -C $WT apply $PATCH || { echo "patch does not apply"; rm -rf $VC; exit 2; }
(cd $WT && go build ./... && go build -tags verif ./...) || { echo "DOES-NOT-BUILD"; git -C $WT checkout -q -- .; rm -rf $VC; exit 2; }
(cd $VC && VERIF_REPO=$WT VERIF_TIMES=1 timeout 1800 bin/check $PROP $TIER > $VC/out.txt 2>&1; echo "rc=$?" >> $VC/out.txt)
grep -E "VIOLATION|KNOWN-FINDING|rc=|INFRA|Infra|REJECTED" $VC/out.txt | head -8
cp $VC/out.txt /tmp/wt/out-$(basename $WT)-$(basename $(dirname $PATCH))-$PROP.txt
git -C $WT checkout -q -- .
rm -rf $VC
