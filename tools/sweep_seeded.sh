#!/bin/bash
# sweep_seeded.sh [ids...] : apply every stored change to /repo's working tree in turn, run the quick check
# of the property named first in its caught_by (R-*: breaks_property / caught_by), undo, and tabulate.
# /repo must be clean; it is restored after every change.
export GOFLAGS=-mod=mod GOPROXY=off GOSUMDB=off GOTOOLCHAIN=local
cd /verif || exit 2
if [ -n "$(git -C /repo status --porcelain)" ]; then echo "/repo is not clean"; exit 2; fi
ids="$@"; [ -z "$ids" ] && ids=$(ls seeded | grep -v SWEEP)
out=seeded/SWEEP.txt; : > $out.new
for id in $ids; do
  d=/verif/seeded/$id
  prop=$(python3 -c "
import json,re;m=json.load(open('$d/meta.json'));c=m.get('caught_by')
c=c[0] if isinstance(c,list) else c
print(re.match(r'C\d+',c).group(0))")
  if ! git -C /repo apply --check $d/patch.diff 2>/dev/null; then echo "$id $prop DOES-NOT-APPLY" | tee -a $out.new; continue; fi
  git -C /repo apply $d/patch.diff
  if ! (cd /repo && go build ./... && go build -tags verif ./... ) >/dev/null 2>&1; then res="DOES-NOT-BUILD"; else
    res=$(timeout 1800 bin/check $prop quick 2>&1 | grep -E "^VIOLATION|^OK|^INFRA|KNOWN" | head -1 | cut -c1-60)
  fi
  git -C /repo checkout -- .
  rm -f /verif/replays/*.json
  echo "$id $prop ${res:-NO-RESULT}" | tee -a $out.new
done
# merge with the previous table (a partial sweep only replaces its own rows)
python3 - "$out" "$out.new" <<'PY'
import sys, os
old, new = sys.argv[1], sys.argv[2]
rows = {}
for f in (old, new):
    if os.path.exists(f):
        for l in open(f):
            if l.strip():
                rows[l.split()[0]] = l.rstrip("\n")
open(old, "w").write("\n".join(rows[k] for k in sorted(rows)) + "\n")
os.remove(new)
PY
git -C /verif checkout -- evidence 2>/dev/null
