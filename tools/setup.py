#!/usr/bin/env python3
"""MANIFEST.setup_cmd: build the framework from files on disk only (offline)."""
import os
import sys

sys.path.insert(0, os.path.dirname(os.path.abspath(__file__)))
import vlib  # noqa: E402

try:
    t = vlib.build(("drive",))
    print("setup: harness built in %.1fs" % t)
except vlib.Infra as e:
    print("setup failed:", e)
    sys.exit(1)
