#!/usr/bin/env python3
"""Writes MANIFEST.json from the table below (one source of truth)."""
import json
import os
import subprocess

VERIF = os.path.dirname(os.path.dirname(os.path.abspath(__file__)))

CALLS_NOTE = ("Trusted: TLC, the hooks (add-only observation points), the harness driver and puppets (they only drive and "
              "record; TLC judges). Assumes gRPC/HTTP2/Go runtime/protobuf behave as the environment of the model; the "
              "environment acts in lock-step with the library in these replays.")

CHECKS = {
    "C01": dict(
        engine="calls",
        category="model_checking",
        text="TLC checks OutIsQFVerdict/QFNeverAfterQuorum/QFSetsGrow/QFNoFailedNode/QFOnlyTargets/QFCurrent/QFStepwise on "
             "Calls.tla for every scenario (all call kinds, QF family, per-node fates, arrival orders, cancel positions) up "
             "to 2 (thorough 3) nodes; TLC then enumerates every lock-step behaviour of the C01 family up to 3 nodes and "
             "each one is replayed against the real library through stubs regenerated from /repo's templates; the recorded "
             "traces (hook events + stamped quorum-function invocations) are validated by TLC against CallsTrace.tla, "
             "all invariants evaluated in every trace state. Exhaustive over the bounded scenario family, not a proof for "
             "all sizes."' In addition the composition Gorums.tla (one manager, all nodes, many concurrent calls: id allocation, issue loops, per-node request flow, server connections, handlers, receivers, routers, collection loops, outcomes) is checked by TLC at design level (GorumsMC) and free concurrent workloads (all 16 methods, 3 overlapping configurations, slow quorum functions, contexts ending at arbitrary instants, late/failing handlers, id jumps of 2^32-d) are recorded with every event of every layer and validated event by event against GorumsTrace.tla (C01: the quorum function is invoked once per consumed reply, with exactly the consumed replies, never after a quorum, also when replies pile up behind a slow invocation and the context ends).',
        ref="DESIGN.md 5 C01, 3.1",
        technique="TLA+ spec (Calls.tla) + TLC exhaustive; TLC-generated behaviours replayed on real code; TLC trace validation"),
    "C02": dict(
        engine="calls",
        category="model_checking",
        text="OutcomeExact/ReturnedOnlyWithOutcome/QuiescentOK/OutFinal checked by TLC on Calls.tla; every lock-step "
             "behaviour of the C02 family (thresholds 1..n+1, every skip pattern down to zero targets, both context "
             "causes, context ended before the call) up to 3 (thorough 4) nodes replayed on the real library; outcome, "
             "error/reply counts, errors.Is classification and future stability (Get x3, Done) validated by TLC against "
             "CallsTrace.tla; a call that has not ended when the script is over is judged by the Quiescent rule "
             "(no library step enabled in the specification)."" In addition the composition Gorums.tla (one manager, all nodes, many concurrent calls: id allocation, issue loops, per-node request flow, server connections, handlers, receivers, routers, collection loops, outcomes) is checked by TLC at design level (GorumsMC) and free concurrent workloads (all 16 methods, 3 overlapping configurations, slow quorum functions, contexts ending at arbitrary instants, late/failing handlers, id jumps of 2^32-d) are recorded with every event of every layer and validated event by event against GorumsTrace.tla (C02: ok iff the last invocation reported a quorum, Incomplete iff every targeted node was consumed, a context error only after the context ended; the stub's result agrees).",
        ref="DESIGN.md 5 C02, 3.1",
        technique="TLA+ spec (Calls.tla) + TLC exhaustive; TLC-generated behaviours replayed on real code; TLC trace validation"),
    "C06": dict(
        engine="calls",
        category="model_checking",
        text="SkippedNotCounted/OneWayNoHandlerWait and the payload rule (trace spec: a handler starts at most once per call, "
             "only on targeted nodes, with the tag the per-node function produced) for all 3^n per-node functions, n<=3 "
             "(thorough 4), on every call kind that accepts one, plus unicast/multicast with and without send-waiting "
             "whose handlers are held until after the call returned; replayed on the real library and validated by TLC.",
        ref="DESIGN.md 5 C06, 3.1",
        technique="TLA+ spec (Calls.tla) + TLC exhaustive; TLC-generated behaviours replayed on real code; TLC trace validation"),
    "C11": dict(
        engine="calls",
        category="model_checking",
        text="CorrPublishedAtOnce/LevelMonotone/DoneFinal/CorrDoneIffReturned/CorrValueFromQF/TypedGetTotal checked by TLC on "
             "Calls.tla; every lock-step behaviour of the correctable family (level functions count/non-monotone/jump, "
             "thresholds, streams with repeated replies and trailing failure, custom return type) up to 2 nodes (thorough: "
             "150000 seeded behaviours of the 3-node family) replayed on the real library; after every consumed event the "
             "driver snapshots raw Get, typed Get (under recover), Done, early and late watchers, and TLC requires each "
             "snapshot to equal the specification's correctable state.",
        ref="DESIGN.md 5 C11, 3.1",
        technique="TLA+ spec (Calls.tla) + TLC exhaustive; TLC-generated behaviours replayed on real code; TLC trace validation"),
}

CHECKS["C14"] = dict(
    engine="config",
    category="model_checking",
    text="Config.tla gives every public constructor (WithNodeList/WithNodeMap/WithNodeIDs/And/Except/WithoutNodes/"
         "WithNewNodes) its set of allowed outcomes over a pool and a sequence of configurations; TLC explores all "
         "operation sequences up to depth 2 (thorough 3) over an address universe with an alternative spelling and a real "
         "FNV-1a colliding pair, checking the invariants and OperandsUnchanged/PoolOnlyGrows; every sequence (thorough: "
         "150000 seeded depth-3 sequences) is executed on a real manager through the generated wrappers and each logged "
         "operation (outcome, listing, sizes, addresses, node identity, all earlier configurations, pool) is validated by "
         "TLC against Outcomes(op).",
    ref="DESIGN.md 5 C14, 3.4",
    note="Trusted: TLC, the driver's projection of the abstract state. No network is involved (WithNoConnect).",
    technique="TLA+ spec (Config.tla) + TLC exhaustive path enumeration; paths executed on real code; TLC trace validation")
CHECKS["C19"] = dict(
    engine="sort",
    category="model_checking",
    text="Sort.tla defines the meaning of the keys ID/Port/LastNodeError, lexicographic order, Sorted and StrictWeak; TLC "
         "checks that the specified keys and every key sequence are strict weak orders and enumerates the complete input "
         "space (all key sequences of length 1..3, all slices of length 0..3 (thorough 4) over a 6-node universe); the real "
         "OrderedBy(...).Sort and the real key functions run on every case and TLC validates every result (Sorted) and every "
         "comparison (equal to the specified key).",
    ref="DESIGN.md 5 C19, 3.4",
    note="Trusted: TLC; the universe is 6 nodes built through the public constructors (VerifSetLastErr for the error state).",
    technique="TLA+ spec (Sort.tla) + TLC enumeration of the full bounded input space; real code run on every case; TLC validation")

CHECKS["C13"] = dict(
    engine="codec",
    category="model_checking",
    text="Codec.tla transcribes the decoder's case analysis over abstract frames (classes of the metadata length prefix, "
         "metadata bytes, method-name entity kind, direction, payload length prefix, payload bytes; the length-prefix classes "
         "include truncated and over-long varints and values >= 2^63 that wrap when converted) and maps each frame to "
         "its allowed outcomes, 'panic' in none; TLC checks totality and enumerates the complete lattice (8064 frames); "
         "each is instantiated to concrete bytes (1, thorough 8 seeded instances) and decoded by the real Codec under "
         "recover; TLC validates every outcome against Decode(frame), every round trip of all 17 registered methods in "
         "both directions (payload, metadata, status code/message/details equal, right type) and arbitrary byte strings "
         "(error or message). Exhaustive over classes; values inside a class are sampled.",
    ref="DESIGN.md 5 C13, 3.4",
    note="Trusted: TLC, the concretisation of classes in harness/cmd/drive/codeccmd.go. Value-level fidelity is exploration-level.",
    technique="TLA+ transcription of the decoder's case analysis (Codec.tla); TLC enumerates the lattice; each case replayed on the real codec; TLC validation")

PROG_NOTE = ("Trusted: TLC, hooks, driver and puppets (drive and record only). Before(c1,c2) comes from the driver's own "
             "StubRet/StubCall events. The observation window affects detection power only; timing-dependent rejections "
             "(ProgEnd/Quiescent) are re-run before being reported.")
CHECKS["C03"] = dict(
    engine="prog",
    category="model_checking",
    text="Fifo.tla states per-connection FIFO (against the callers' happens-before order, not the queue order), no double "
         "start, and all-handled as preconditions of the HStart action over API-level events; TLC enumerates every ordered "
         "pair of call variants (16 methods x send-waiting x {all fast, one slow, one holding node} handler patterns x "
         "release order; thorough adds triples) and each program is executed on the real library with send buffer 0 and 2 "
         "(quick: 900 seeded programs per setting); scenarios fifo-across-stream-break (send buffer 8, first of five async/"
         "one-way calls held before SendMsg, server restarted) and fifo-full-buffer (sender held, send buffer of 2 full, four "
         "further invocations of each kind one after the other) are validated by the same monitor; TLC validates each recorded "
         "section against FifoTrace.tla. FifoPerConn/NoDoubleStart are checked exhaustively on Channel.tla.",
    ref="DESIGN.md 5 C03, 3.0 (Fifo), 3.2",
    note=PROG_NOTE,
    technique="TLA+ guarantee module (Fifo.tla) + TLC program enumeration; programs executed on real code; TLC trace validation")
CHECKS["C04"] = dict(
    engine="prog",
    category="model_checking",
    text="Fifo.tla's HStart precondition 'no earlier handler of this connection is unreleased' with idempotent HRelease/"
         "HReturn; TLC enumerates programs over every release style (on entry, implicit on return, late, x3, from three "
         "helper goroutines, failing handler, never) x handler kind (unary, stream, one-way) x a second call on the same "
         "or on another client connection, plus staged-release triples (A releases early, B holds, A releases again by "
         "returning / explicitly / from goroutines, C must not start) and holding stream handlers that send several items back "
         "to back (sending is not releasing); all 1868 programs are executed with send buffer 0 and "
         "2; a second connection must complete while the first is held; a runtime fatal error of the driver process "
         "(e.g. unlock of unlocked mutex) is reported as violation.",
    ref="DESIGN.md 5 C04, 3.0 (Fifo), 3.2",
    note=PROG_NOTE,
    technique="TLA+ guarantee module (Fifo.tla) + TLC program enumeration; programs executed on real code; TLC trace validation")

LIFE_NOTE = ("Trusted: TLC, hooks (incl. gate hooks placed before lock acquisitions / blocking operations), driver. Liveness "
             "is read as safety over quiescent states (model: no library step enabled; real runs: no library event for "
             "1.5 s with all gorums timers far below or far beyond that period); quiescence-based rejections are re-run "
             "twice before being reported. Bounded: 2-3 requests, 2-3 stream epochs, one crash, one Close.")
LIFE_TECH = ("TLA+ process-level spec (Channel.tla) + TLC exhaustive on quiescent invariants; TLC counterexample interleavings "
             "replayed on real code with gates/faults; TLC trace validation: every transport event against Channel.tla action by "
             "action (ChannelTrace.tla, silent steps for unlogged reads), API-level monitors (LifeTrace.tla, RoutingTrace.tla)")
CHECKS["C08"] = dict(
    engine="life", category="model_checking",
    text="Channel.tla models callers, send queue, sender, receiver, watcher, reconnect (RW lock with writer preference, "
         "stale flag reads), router table, network per stream epoch, server loop, crash/restart, Close. CtxPrompt (in every "
         "state where the client library has no enabled step, each call whose context ended has returned - the server is "
         "environment, incl. a peer that never reads: Window=0) is checked exhaustively for 2 requests of kinds two-way / "
         "one-way with and without send-waiting, send buffer 0/1. Scenarios ctx-while-queued/-buffered/-written/-awaiting x 9 "
         "call kinds hold the sender at a gate (= blocked SendMsg), end the context, and require the call to have returned "
         "at quiescence; free workloads cancel at arbitrary instants.",
    ref="DESIGN.md 5 C08, 3.2", note=LIFE_NOTE, technique=LIFE_TECH)
CHECKS["C09"] = dict(
    engine="life", category="model_checking",
    text="NoStrandedCall (settled state with server up and node not closed => no call outstanding) and NoLockWedge checked "
         "exhaustively on Channel.tla incl. streaming requests with bounded reply channels and early completion; TLC's "
         "19-state counterexample of the lock wedge (found with the pre-fix deviations) is replayed with gates on the real "
         "library for 9 call kinds, as are stream-outruns-call and ctx-while-written, each followed by a probe RPC that must "
         "be answered; further scenarios from TLC counterexamples and fault workloads: stream-replaced, stream-dies-unseen "
         "(found by TLC after the model learnt the eager connect), stream-ctx-while-queued-full, ctx-before-send; "
         "NoPermanentStrand (nothing outstanding once every timer has fired). Every scenario execution is also validated at "
         "transport level: each hook event of the node's channel against Channel.tla action by action (ChannelTrace.tla). "
         "Free workloads (mixed calls, cancellations at arbitrary instants, late replies; also with servers crashing and "
         "restarting at random) must end clean (every invocation returns, router tables empty).",
    ref="DESIGN.md 5 C09, 3.2", note=LIFE_NOTE, technique=LIFE_TECH)
CHECKS["C10"] = dict(
    engine="life", category="model_checking",
    text="In Channel.tla the receiver's back-off timer is an ENVIRONMENT action, so NoStrandedCall says a reply on a "
         "re-created stream is received without the timer firing; checked exhaustively with one crash/restart at every "
         "point. Scenarios restart (back-off base 20 s, gRPC's own redial fired explicitly) and down-at-creation x 9 call "
         "kinds require the probe call issued after the node is back to be answered before quiescence; scenario metadata "
         "(general + per-node metadata, node 1 crashes and reconnects, node 2 is down at creation and connects late): every "
         "accepted connection carries the expected metadata and runs the connect callback exactly once; scenarios "
         "failed-reconnect-between-reads (NoPanic: no goroutine dies on a nil stream) and wake-before-sleep (lost wake-up "
         "of the back-off); transport-level validation of every scenario trace (ChannelTrace.tla); free workloads with "
         "random server stop/restart end with a probe quorum call over all nodes that must succeed.",
    ref="DESIGN.md 5 C10, 3.2", note=LIFE_NOTE, technique=LIFE_TECH)
CHECKS["C12"] = dict(
    engine="life", category="model_checking",
    text="CloseTerminates (client-settled and closed => sender exited, receiver exited or never started, no watcher armed, "
         "every caller returned) checked exhaustively on Channel.tla with Close placed at every state, send buffer 0/1, "
         "two-way/one-way/streaming requests, a request issued after Close. Scenarios close-while-awaiting, close-buffered "
         "(send buffer 4, six calls after Close), close-at-loop-end (gate between routing and the loop-end check), "
         "close-sender-exit-window (the sender held at its exit after its drain, twelve calls with a send buffer), "
         "close-noconnect, close-never-connected x 9 call kinds: after Close returned every call is served, post-Close two-way calls failed, no "
         "library goroutine is left, nothing panicked; each scenario runs in its own process.",
    ref="DESIGN.md 5 C12, 3.2", note=LIFE_NOTE, technique=LIFE_TECH)

ROUTE_TECH = ("TLA+ guarantee module (Routing.tla) + Channel.tla exhaustive at design level; TLC-enumerated programs and free "
              "workloads executed on real code; TLC trace validation (RoutingTrace.tla)")
CHECKS["C05"] = dict(
    engine="prog", category="model_checking",
    text="Routing.tla states, over the router-table events logged inside the router mutex and the calls' receive events: a "
         "response is delivered only to a registered request of that node, a non-streaming request gets at most one, what a "
         "call consumes under node n was delivered by node n's channel for this very call (message ids are manager-wide), "
         "nothing is consumed after the call ended, every reply shown to a quorum function carries the stamp of the handler "
         "that produced it for this call. Checked on 1596 TLC-enumerated programs (every call variant x ways of ending incl. "
         "late replies after return/cancel) x send buffer 0/2, and on free workloads (6 goroutines, three overlapping "
         "configurations, late replies, errors, cancellations at arbitrary instants); AtMostOneResponse etc. exhaustively on "
         "Channel.tla."" In addition the composition Gorums.tla (one manager, all nodes, many concurrent calls: id allocation, issue loops, per-node request flow, server connections, handlers, receivers, routers, collection loops, outcomes) is checked by TLC at design level (GorumsMC) and free concurrent workloads (all 16 methods, 3 overlapping configurations, slow quorum functions, contexts ending at arbitrary instants, late/failing handlers, id jumps of 2^32-d) are recorded with every event of every layer and validated event by event against GorumsTrace.tla (C05: message ids never repeat, also across 2^32 calls; what a call consumed as node n's reply was delivered by n's channel, read by n's receiver, produced by n's handler for this id, started by a request written to n).",
    ref="DESIGN.md 5 C05, 3.0 (Routing), 3.2, 3.5", note=PROG_NOTE, technique=ROUTE_TECH)
CHECKS["C18"] = dict(
    engine="prog", category="model_checking",
    text="NoResidue: in Channel.tla a settled healthy node has an empty router table (exhaustive); on real executions the "
         "router count logged under the mutex must equal the specification's at every event and, when every invocation and "
         "handler of a program has returned, the tables read through a verif accessor must be empty and no per-call "
         "goroutine (async/correctable loop, cancellation watcher) may be left. Programs cover every call kind x every way "
         "of ending (all replies, quorum before all replies, exhaustion by errors, cancellation with pending handlers, "
         "stream completion); free workloads add volume; scripted scenarios (a send failing after the sender's health "
         "check, a context ending during the write, a stream replaced behind the receiver) x 9 call kinds end with a census "
         "of per-call goroutines and router tables. Every program is recorded with the events of every layer and also "
         "validated event by event against the composition Gorums.tla (GorumsTrace.tla).",
    ref="DESIGN.md 5 C18, 3.0 (Routing), 3.2, 3.5", note=PROG_NOTE, technique=ROUTE_TECH)

CHECKS["C07"] = dict(
    engine="calls", category="fault_enumeration",
    text="Fault enumeration driven by the specification: TLC enumerates, for qc / async / custom-return quorum calls on 2-3 "
         "nodes with every threshold, every assignment of {reply, handler error, connection failure} to the nodes at every "
         "position of the arrival order, with three connection-failure kinds (server stopped while the handler is pending, "
         "stopped before the call, never started) and a failed node that comes back, is reconnected by the library and "
         "fails again while the call still waits (7185 behaviours); each behaviour runs on a fresh manager and servers "
         "(quick: 320 seeded, a third of them with a flapping node; thorough: all, 8 drivers in parallel). TLC validates the traces against CallsTrace.tla: "
         "outcome = the specification's (success whenever the surviving replies satisfy the QF), each failing node exactly "
         "once in the error list and never in a QF reply set, handler failures carry the handler's status code and message, "
         "connection failures do not, and at quiescence no call is waiting for a node whose server was stopped. "
         "ErrorsNameNodesOnce/FailedNotReplied/QFNoFailedNode are checked by TLC on Calls.tla; 'pending requests are failed "
         "when the stream breaks' is checked exhaustively on Channel.tla (NoStrandedCall, C09)."" In addition the composition Gorums.tla (one manager, all nodes, many concurrent calls: id allocation, issue loops, per-node request flow, server connections, handlers, receivers, routers, collection loops, outcomes) is checked by TLC at design level (GorumsMC) and free concurrent workloads (all 16 methods, 3 overlapping configurations, slow quorum functions, contexts ending at arbitrary instants, late/failing handlers, id jumps of 2^32-d) are recorded with every event of every layer and validated event by event against GorumsTrace.tla (C07: a failing node is consumed once, counts and node list of the returned error equal the specification's).",
    ref="DESIGN.md 5 C07", technique="TLA+ spec (Calls.tla) + TLC-enumerated fault behaviours replayed on real code with real "
                                      "server stops; TLC trace validation")

GEN_NOTE = ("Trusted: TLC, the descriptor construction and the go/ast extraction in harness/cmd/drive/gencmd.go, the Go "
            "compiler as oracle for 'compiles'. The plugin and protoc-gen-go run as subprocesses on programmatic "
            "CodeGeneratorRequests (protoc is not available offline).")
CHECKS["C16"] = dict(
    engine="gen", category="model_checking",
    text="Gen.tla transcribes doc/method-options.md: Verdict(service) in {accept (documented combination), reject (reserved "
         "message name, documented illegal stream/option combination), either (undocumented mix: diagnostic or compiling "
         "output)} and Acceptable(verdict, run). TLC enumerates the lattice (2025 services: single-method services over option sets x "
         "per_node_arg x custom_return_type x client/server stream x local/Empty/imported types, reserved names, two services, "
         "every documented method with a message imported from a Go package named like one the generated file uses itself "
         "(encoding, fmt, gorums, context, proto) and with CamelCase / lowerCamel / snake_case / lower-case rpc names; "
         "all 400 ordered pairs of documented methods); the plugin built from the working tree runs three times "
         "per definition under a timeout and every accepted service is also generated together with another one in one "
         "request, both orders (determinism = identical bytes, also independent of the rest of the request), everything emitted is compiled with the standard "
         "message code against /repo in one batch, and TLC validates every outcome.",
    ref="DESIGN.md 5 C16, 3.4", note=GEN_NOTE,
    technique="TLA+ transcription of the option lattice (Gen.tla); TLC enumeration; each case replayed on the real plugin and compiled; TLC validation")
CHECKS["C17"] = dict(
    engine="gen", category="model_checking",
    text="Binding(method) of Gen.tla: receiver type, runtime entry (RPCCall/QuorumCall/AsyncCall/CorrectableCall/Multicast/"
         "Unicast), the fully-qualified method string on the client stub and in the server registration, ServerStream flag, "
         "PerNodeArgFn, quorum-function name, server handler kind. For every accepted method of the enumerated services the "
         "tuple extracted with go/ast from the freshly generated code must equal the specification's row (360 rows, incl. rpc "
         "names that GoCamelCase changes: the wire name is the name as written, on both sides). All behavioural "
         "checks (C01-C12) link stubs regenerated from the working tree, so a wrong binding also shows up as a rejected "
         "trace there. Auxiliary, syntactic: all 19 checked-in *_gorums.pb.go of the root module are regenerated from their "
         "compiled-in descriptors and compared with the committed files comments aside, and template_static.go is compared "
         "with the bundle produced in a scratch copy of the repository.",
    ref="DESIGN.md 5 C17, 3.4", note=GEN_NOTE,
    technique="TLA+ binding table (Gen.tla); go/ast extraction from regenerated code validated by TLC; committed vs regenerated comparison")

PENDING = {
    "C03": "check under construction (Fifo layer, DESIGN.md 11 step 3)",
    "C04": "check under construction (Fifo layer, DESIGN.md 11 step 3)",
    "C05": "check under construction (Routing layer, DESIGN.md 11 step 3)",
    "C07": "check under construction (Routing layer / fault enumeration, DESIGN.md 11 step 3)",
    "C08": "check under construction (Lifecycle layer, DESIGN.md 11 step 4)",
    "C09": "check under construction (Lifecycle layer, DESIGN.md 11 step 4)",
    "C10": "check under construction (Lifecycle layer, DESIGN.md 11 step 4)",
    "C12": "check under construction (Lifecycle layer, DESIGN.md 11 step 4)",
    "C13": "check under construction (Codec module, DESIGN.md 11 step 2)",
    "C14": "check under construction (Config module, DESIGN.md 11 step 2)",
    "C15": "data-race freedom in the sense of the Go memory model is not expressible over the specification's abstract "
           "state; deciding it needs the Go race detector, a different technique (DESIGN.md 5 C15)",
    "C16": "check under construction (Gen module, DESIGN.md 11 step 5)",
    "C17": "check under construction (Gen module, DESIGN.md 11 step 5)",
    "C18": "check under construction (Routing layer, DESIGN.md 11 step 3)",
    "C19": "check under construction (Sort module, DESIGN.md 11 step 2)",
}


def main():
    hooks = subprocess.run(["git", "-C", "/repo", "log", "--format=%h %s"], stdout=subprocess.PIPE, text=True).stdout
    hook_commits = [l.split()[0] for l in hooks.splitlines() if l.split(" ", 1)[1].startswith("verif:")]
    m = {
        "version": 1,
        "setup_cmd": "cd /verif && python3 tools/setup.py",
        "hooks": {
            "guard": "verif",
            "enable": "go build -tags verif (files verif_on.go / verif_off.go; call sites vEmit/vGate/vRouteMiss)",
            "baseline_off_cmd": "cd /repo && go test -mod=mod -json -vet=off -count=1 -timeout 25m ./...",
            "source_commits": hook_commits,
            "add_only": True,
        },
        "engines": [
            {"name": "config", "path": "tools/check_config.py", "serves_properties": ["C14"],
             "kind_free_text": "TLC on specs/Config.tla (ConfigGen path enumeration, ConfigTrace validation) + drive config"},
            {"name": "sort", "path": "tools/check_sort.py", "serves_properties": ["C19"],
             "kind_free_text": "TLC on specs/Sort.tla (SortGen enumeration, SortTrace validation) + drive sort"},
            {"name": "codec", "path": "tools/check_codec.py", "serves_properties": ["C13"],
             "kind_free_text": "TLC on specs/Codec.tla (CodecGen lattice, CodecTrace validation) + drive codec"},
            {"name": "prog", "path": "tools/check_prog.py", "serves_properties": ["C03", "C04", "C05", "C18"],
             "kind_free_text": "TLC on specs/Fifo.tla, specs/Routing.tla (FifoGen program enumeration, FifoTrace/RoutingTrace "
                               "validation) + drive prog / drive m3; Channel.tla at design level"},
            {"name": "life", "path": "tools/check_life.py", "serves_properties": ["C08", "C09", "C10", "C12"],
             "kind_free_text": "TLC on specs/Channel.tla (ChannelMC configs) + drive life (gated scenarios, one process each) "
                               "+ drive m3 (free workloads) + TLC trace validation with LifeTrace.tla / RoutingTrace.tla"},
            {"name": "gen", "path": "tools/check_gen.py", "serves_properties": ["C16", "C17"],
             "kind_free_text": "TLC on specs/Gen.tla (GenGen lattice, GenTrace validation) + drive gen / drive regen (plugin "
                               "subprocess, batched go build, go/ast binding extraction)"},
            {"name": "sys", "path": "tools/check_sys.py", "serves_properties": ["C01", "C02", "C05", "C07"],
             "kind_free_text": "TLC on specs/Gorums.tla (GorumsMC exhaustive; GorumsTrace event-by-event validation of free "
                               "workloads recorded by drive m3 with every event) - a phase of the calls and prog engines"},
            {"name": "calls", "path": "tools/check_calls.py",
             "serves_properties": ["C01", "C02", "C06", "C07", "C11"],
             "kind_free_text": "TLC on specs/Calls.tla (CallsMC exhaustive, CallsGen behaviour generator, CallsTrace trace "
                               "validation) + Go driver harness/cmd/drive replaying the generated behaviours on the real "
                               "library"},
        ],
        "checks": [],
        "not_applicable": [],
        "notes": "exit 2 of a check = infrastructure problem, never a verdict. KNOWN_FINDINGS.txt lists open/fixed findings.",
    }
    for pid in sorted(CHECKS):
        c = CHECKS[pid]
        m["checks"].append({
            "property_id": pid,
            "quick_cmd": "bin/check %s quick" % pid,
            "thorough_cmd": "bin/check %s thorough" % pid,
            "evidence_file": "/verif/evidence/%s.json" % pid,
            "replay_cmd_template": "bin/check %s --replay {path}" % pid,
            "engine": c["engine"],
            "level_claimed": {"category": c["category"], "text": c["text"], "design_ref": c["ref"]},
            "level_note": c.get("note", CALLS_NOTE),
            "technique": c["technique"],
        })
    for pid in sorted(PENDING):
        if pid not in CHECKS:
            m["not_applicable"].append({"property_id": pid, "reason": PENDING[pid]})
    with open(os.path.join(VERIF, "MANIFEST.json"), "w") as f:
        json.dump(m, f, indent=1)
        f.write("\n")


if __name__ == "__main__":
    main()
