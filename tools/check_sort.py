"""C19: node sorters.  TLC enumerates the complete input space (SortGen.tla),
the harness runs the real OrderedBy(...).Sort and the real key functions on
it, TLC validates every result against Sort.tla (SortTrace.tla)."""
import json
import os
import re
import shutil
import time

from vlib import BUILD, Infra, build, log, next_replay_path, open_findings, run, scratch, tlc, tlc_ok, write_evidence

TIERS = {"quick": (3, 3), "thorough": (4, 3)}  # (MaxLen, MaxKeys)
RE_BAD = re.compile(r'<<"BAD", (\d+), (\d+), "(\w+)">>')


def validate(trace, work):
    out, gen, dist, rc = tlc("SortTrace", "SPECIFICATION TSpec\nPOSTCONDITION Accepted\nCHECK_DEADLOCK FALSE\n",
                             work, env={"TRACE": trace}, workers=1, timeout=3000)
    if '<<"DONE"' not in out:
        raise Infra("trace validation did not finish:\n" + out[-3000:])
    return [(int(m.group(1)), m.group(3)) for m in RE_BAD.finditer(out)], gen


def check(prop, tier, seed, replay):
    t0 = time.time()
    work = scratch(prop)
    try:
        build()
        maxlen, maxkeys = TIERS[tier]
        if replay:
            rp = json.load(open(replay))
            cases = os.path.join(work, "cases.ndjson")
            with open(cases, "w") as f:
                f.write(json.dumps({"ks": rp["case"]["ks"], "in": rp["case"]["in"]}) + "\n")
        else:
            cases = os.path.join(work, "cases.ndjson")
            cfg = ("SPECIFICATION Spec\nCONSTANTS\n  MaxLen = %d\n  MaxKeys = %d\nINVARIANTS Emit Sortable\n"
                   "CHECK_DEADLOCK FALSE\n" % (maxlen, maxkeys))
            gout, ggen, gdist, _ = tlc("SortGen", cfg, work, env={"GEN_OUT": cases}, workers=8, timeout=1500)
            if not tlc_ok(gout):
                raise Infra("SortGen failed (model level):\n" + gout[-3000:])
            log("design level + enumeration: %d cases (keys <= %d, length <= %d); keys are strict weak orders in the "
                "specification, every case is sortable" % (gdist, maxkeys, maxlen))
        trace = os.path.join(work, "trace.ndjson")
        p = run([os.path.join(BUILD, "drive"), "sort", "-cases", cases, "-out", trace], check=False, timeout=3000)
        if p.returncode != 0:
            raise Infra("driver failed:\n" + p.stdout[-2000:])
        bad, tstates = validate(trace, work)
        lines = open(trace).read().splitlines()
        known = {k["key"]: k for k in open_findings(prop=prop)}
        reported, known_lines = [], []
        for ln, ev in bad:
            rec = json.loads(lines[ln - 1])
            key = "Less:%s" % rec["key"] if ev == "Less" else "Sort:" + ",".join(rec["ks"])
            hit = [k for k in known.values() if k["key"] == key or (ev == "Sort" and k["key"].startswith("Less:") and
                                                                      k["key"][5:] in rec["ks"])]
            if hit:
                kl = "KNOWN-FINDING: property=%s %s" % (prop, hit[0]["what"])
                if kl not in known_lines:
                    known_lines.append(kl)
                continue
            if len(reported) < 3:
                path = next_replay_path(prop)
                json.dump({"property": prop, "case": rec}, open(path, "w"), indent=1)
                reported.append(path)
        nsort = sum(1 for x in lines if '"ev":"Sort"' in x)
        nless = len(lines) - nsort
        if replay:
            if reported:
                log("VIOLATION property=%s replay=%s" % (prop, replay))
                return 1
            log("replay accepted")
            return 0
        for kl in known_lines:
            log(kl)
        nontriv = sum(1 for x in lines if '"ev":"Sort"' in x and len(json.loads(x)["in"]) >= 2)
        cov = {"states": gdist, "transitions": ggen, "traces_validated_against_impl": len(lines) - len(bad),
               "evaluations": len(lines), "distinct_nontrivial": nontriv,
               "rule": "every key sequence of length 1..%d over {ID, Port, LastNodeError} x every slice of length 0..%d "
                       "over the 6-node universe of Sort.tla, plus all 3*36 key comparisons; non-trivial = slice of "
                       "length >= 2; all cases are distinct by construction" % (maxkeys, maxlen),
               "samples": [json.loads(lines[0]), json.loads(lines[-1])],
               "exhaustive": True, "sort_cases": nsort, "less_cases": nless,
               "known_findings_reported": known_lines}
        write_evidence(prop, tier, seed, "model_checking", cov, time.time() - t0, len(bad) - 0,
                       ["the universe has 6 nodes (3 ids x 2 ports, error pattern mixed); lengths bounded",
                        "sort.Sort is not stable: any arrangement satisfying Sorted is accepted"])
        if reported:
            for pth in reported:
                log("VIOLATION property=%s replay=%s" % (prop, pth))
            return 1
        log("OK %s %s: %d sorts and %d comparisons validated in %.1fs" % (prop, tier, nsort, nless, time.time() - t0))
        return 0
    finally:
        shutil.rmtree(work, ignore_errors=True)
