#!/usr/bin/env python3
"""check <property> [quick|thorough] [--replay <path>]

exit 0: the property held on everything explored (KNOWN-FINDING lines for listed findings)
exit 1: VIOLATION property=<id> replay=<path>
exit 2: infrastructure problem (never a verdict)"""
import os
import sys
import traceback

sys.path.insert(0, os.path.dirname(os.path.abspath(__file__)))
import vlib  # noqa: E402


def main():
    if len(sys.argv) < 2:
        print(__doc__)
        return 2
    prop = sys.argv[1]
    tier, seed, replay = vlib.seed_tier(sys.argv)
    try:
        if prop in ("C01", "C02", "C06", "C11", "C07"):
            import check_calls
            return check_calls.check(prop, tier, seed, replay)
        if prop == "C19":
            import check_sort
            return check_sort.check(prop, tier, seed, replay)
        if prop == "C14":
            import check_config
            return check_config.check(prop, tier, seed, replay)
        if prop == "C13":
            import check_codec
            return check_codec.check(prop, tier, seed, replay)
        if prop in ("C03", "C04"):
            import check_prog
            return check_prog.check_fifo(prop, tier, seed, replay)
        if prop in ("C08", "C09", "C10", "C12"):
            import check_life
            return check_life.check(prop, tier, seed, replay)
        if prop in ("C05", "C18"):
            import check_prog
            return check_prog.check_routing(prop, tier, seed, replay)
        if prop in ("C16", "C17"):
            import check_gen
            return check_gen.check(prop, tier, seed, replay)
        print("no check for", prop)
        return 2
    except vlib.Infra as e:
        print("INFRASTRUCTURE: %s" % e)
        return 2
    except Exception:
        traceback.print_exc()
        return 2


if __name__ == "__main__":
    sys.exit(main())
