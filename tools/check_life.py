"""C08, C09, C10, C12: the transport lifecycle.
Design level: TLC explores Channel.tla (process-level model of channel.go and
the server loop) exhaustively for small constants and checks the property's
quiescent invariants.  Binding: scripted scenarios reach, with gates on the
library's goroutines and faults on the servers, the interleavings TLC
exhibits; free workloads with cancellations add unscheduled executions; TLC
validates the recorded traces (LifeTrace.tla, RoutingTrace.tla)."""
import json
import os
import re
import shutil
import time
from concurrent.futures import ThreadPoolExecutor

from vlib import BUILD, Infra, build, log, next_replay_path, open_findings, run, scratch, tla_set, tlc, tlc_ok, write_evidence
import check_chan
import check_prog

ALL = ("CtxPrompt NoStrandedCall NoLockWedge NoResidue FifoPerConn NoDoubleStart OneUnreleased AtMostOneResponse "
       "ConfirmOnlyOneWay CloseTerminates NoPanic NoPermanentStrand NoPermanentResidue")
W0 = ("CtxPrompt NoLockWedge FifoPerConn NoDoubleStart OneUnreleased AtMostOneResponse ConfirmOnlyOneWay CloseTerminates "
      "NoPanic")

# name: (reqs, k1, k2, k3, sendbuf, window, close, cancel, maxepoch, invariants[, maxcrash[, foreign]])
CFG = {
    "two-two-b0-e2": ("{1, 2}", "two", "two", "two", 0, 1, "TRUE", "{1, 2}", 2, ALL),
    "two-two-b0-noclose": ("{1, 2}", "two", "two", "two", 0, 1, "FALSE", "{1, 2}", 3, ALL),
    "two-sw-w0": ("{1, 2}", "two", "sw", "two", 1, 0, "TRUE", "{1, 2}", 2, W0),
    "stream-two-e2": ("{1, 2}", "stream", "two", "two", 0, 1, "TRUE", "{1}", 2, ALL),
    "sw-nsw-b1": ("{1, 2}", "sw", "nsw", "two", 1, 1, "TRUE", "{1, 2}", 2, ALL),
    # thorough
    "two-two-b0": ("{1, 2}", "two", "two", "two", 0, 1, "TRUE", "{1, 2}", 3, ALL),
    "two-two-b1": ("{1, 2}", "two", "two", "two", 1, 1, "TRUE", "{1, 2}", 3, ALL),
    "stream-two-b0": ("{1, 2}", "stream", "two", "two", 0, 1, "TRUE", "{1, 2}", 3, ALL),
    "stream-stream-b1": ("{1, 2}", "stream", "stream", "two", 1, 1, "FALSE", "{1}", 3, ALL),
    "two-two-w0": ("{1, 2}", "two", "two", "two", 0, 0, "TRUE", "{1, 2}", 3, W0),
    "nsw-two-w0": ("{1, 2}", "nsw", "two", "two", 1, 0, "TRUE", "{2}", 3, W0),
    "three-b0": ("{1, 2, 3}", "two", "two", "sw", 0, 1, "FALSE", "{1}", 2, ALL),
    # three two-way requests, one cancellation, no crash: the smallest instance in which a request written
    # to a cancelled stream is stranded when the sender re-creates the stream (SenderReconnectStrandsPending)
    "three-two-nocrash": ("{1, 2, 3}", "two", "two", "two", 0, 1, "FALSE", "{1}", 2, ALL, 0),
    "three-b1-close": ("{1, 2, 3}", "two", "nsw", "two", 1, 1, "TRUE", "{}", 2, ALL),
    # a streaming call whose reply channel is filled by other nodes of its configuration while it is still
    # handing its request to this node (EnqueueBlocksOnOwnReplyChannel), with Close
    "stream-foreign": ("{1, 2}", "stream", "two", "two", 0, 1, "TRUE", "{1}", 2, ALL, 1, "TRUE"),
    # thorough tier (after the model grew: one cancellable request each)
    "t-two-two-b0": ("{1, 2}", "two", "two", "two", 0, 1, "TRUE", "{1}", 3, ALL, 1),
    "t-two-two-b1": ("{1, 2}", "two", "two", "two", 1, 1, "TRUE", "{1}", 2, ALL, 1),
    "t-stream-two": ("{1, 2}", "stream", "two", "two", 0, 1, "TRUE", "{1}", 2, ALL, 1),
    "t-stream-stream-b1": ("{1, 2}", "stream", "stream", "two", 1, 1, "FALSE", "{1}", 2, ALL, 0),
    "t-three-b0": ("{1, 2, 3}", "two", "two", "sw", 0, 1, "FALSE", "{1}", 2, ALL, 0),
    "t-three-b1-close": ("{1, 2, 3}", "two", "nsw", "two", 1, 1, "TRUE", "{}", 2, ALL, 0),
    "t-stream-foreign": ("{1, 2}", "stream", "two", "two", 0, 1, "TRUE", "{1}", 2, ALL, 0, "TRUE"),
    "t-two-two-abandon": ("{1, 2}", "two", "two", "two", 0, 1, "FALSE", "{1}", 2, ALL, 1, "FALSE", "TRUE"),
    "t-two-two-w0": ("{1, 2}", "two", "two", "two", 0, 0, "TRUE", "{1}", 2, W0, 0),
    # quick tier: one cancellable request, either crash or Close
    "q-two-two-crash": ("{1, 2}", "two", "two", "two", 0, 1, "FALSE", "{1}", 3, ALL, 1),
    "q-two-two-close": ("{1, 2}", "two", "two", "two", 0, 1, "TRUE", "{1}", 2, ALL, 0),
    "q-two-sw-w0": ("{1, 2}", "two", "sw", "two", 1, 0, "TRUE", "{2}", 2, W0, 0),
    "q-stream-two": ("{1, 2}", "stream", "two", "two", 0, 1, "FALSE", "{1}", 2, ALL, 1),
    "q-sw-nsw-b1": ("{1, 2}", "sw", "nsw", "two", 1, 1, "TRUE", "{1}", 2, ALL, 0),
    # calls that end by a quorum from other nodes while their request here is pending
    "two-two-abandon": ("{1, 2}", "two", "two", "two", 0, 1, "FALSE", "{1}", 3, ALL, 1, "FALSE", "TRUE"),
    # the same without crash and Close (quick tier)
    "stream-foreign-q": ("{1, 2}", "stream", "two", "two", 0, 1, "FALSE", "{1}", 2, ALL, 0, "TRUE"),
}
DESIGN = {
    "quick": {"C08": ["q-two-sw-w0", "q-two-two-crash", "q-sw-nsw-b1"],
              "C09": ["q-two-two-crash", "q-stream-two", "three-two-nocrash", "stream-foreign-q"],
              "C10": ["q-two-two-crash", "q-sw-nsw-b1"], "C12": ["q-two-two-close", "q-sw-nsw-b1"]},
    "thorough": {"C08": ["two-sw-w0", "two-two-w0", "nsw-two-w0", "t-two-two-b1", "t-three-b0"],
                 "C09": ["t-two-two-b0", "t-stream-two", "t-stream-stream-b1", "t-three-b0", "three-two-nocrash",
                         "t-stream-foreign", "t-two-two-abandon"],
                 "C10": ["t-two-two-b0", "t-two-two-b1", "t-three-b0"],
                 "C12": ["t-two-two-b0", "t-two-two-b1", "t-stream-two", "sw-nsw-b1", "t-three-b1-close"]},
}
OWN = {"C08": "CtxPrompt", "C09": "NoPermanentStrand NoStrandedCall NoLockWedge", "C10": "NoStrandedCall NoPanic", "C12": "CloseTerminates"}
# free workloads: (runs, goroutines, calls per goroutine)
M3 = {"quick": {"C09": (3, 6, 40), "C08": (2, 6, 30)}, "thorough": {"C09": (30, 8, 80), "C08": (15, 8, 60)}}
# free workloads while servers crash and restart at random (runs, goroutines, calls)
M3F = {"quick": {"C09": (6, 6, 40), "C10": (8, 6, 40)}, "thorough": {"C09": (60, 8, 60), "C10": (80, 8, 60)}}
REPS = {"quick": 1, "thorough": 5}
# free workloads recorded with every event and validated at transport level (ChannelTrace): (runs, with faults)
TFREE = {"quick": {"C08": (4, False), "C09": (4, True), "C10": (4, True)},
         "thorough": {"C08": (30, False), "C09": (40, True), "C10": (40, True), "C12": (20, False)}}
LIFE_TCFG = "SPECIFICATION TSpec\nPOSTCONDITION Accepted\nCHECK_DEADLOCK FALSE\n"
RE_BAD = re.compile(r'<<"BAD", (\d+), (\d+), "(\w+)">>')


def channel_cfg(name, devs):
    reqs, k1, k2, k3, sb, win, close, cancel, me, invs = CFG[name][:10]
    crash = CFG[name][10] if len(CFG[name]) > 10 else 1
    foreign = CFG[name][11] if len(CFG[name]) > 11 else "FALSE"
    abandons = CFG[name][12] if len(CFG[name]) > 12 else "FALSE"
    return ("SPECIFICATION Spec\nCONSTANTS\n  Reqs = %s\n  Kind <- KindOf\n  K1 = \"%s\"\n  K2 = \"%s\"\n  K3 = \"%s\"\n"
            "  SendBuf = %d\n  MaxEpoch = %d\n  MaxCrash = %d\n  CanCancel = %s\n  WithClose = %s\n  ChanCap = 1\n"
            "  MaxItems = 2\n  Window = %d\n  Foreign = %s\n  Abandons = %s\n  Devs = %s\nINVARIANTS %s\nCHECK_DEADLOCK FALSE\n"
            % (reqs, k1, k2, k3, sb, me, crash, cancel, close, win, foreign, abandons, tla_set(devs), invs))


def validate_life(trace, work):
    out, gen, _, _ = tlc("LifeTrace", LIFE_TCFG, work, env={"TRACE": trace}, workers=1, timeout=1200)
    if '<<"DONE"' not in out:
        raise Infra("trace validation did not finish:\n" + out[-3000:])
    lines = open(trace).read().splitlines()
    bad = []
    for m in RE_BAD.finditer(out):
        rec = json.loads(lines[int(m.group(1)) - 1])
        hdr = None
        for x in lines:
            r = json.loads(x)
            if r["ev"] == "Scen" and r.get("t") == rec.get("t"):
                hdr = r
        bad.append((hdr or {}, rec))
    return bad, gen, lines


def run_life(prop, out, stats, only=None, reps=1, quiet=1500, allout=None):
    cmd = [os.path.join(BUILD, "drive"), "life", "-prop", prop, "-out", out, "-stats", stats, "-reps", str(reps),
           "-quiet", str(quiet)]
    if only:
        cmd += ["-only", only]
    if allout:
        cmd += ["-allout", allout]
    p = run(cmd, timeout=3000, check=False)
    if p.returncode != 0:
        raise Infra("driver failed:\n" + p.stdout[-3000:])
    return p.stdout.strip()


def check(prop, tier, seed, replay):
    t0 = time.time()
    work = scratch(prop)
    try:
        build()
        opens = open_findings(module="Channel")
        devs = sorted(k["key"] for k in opens)
        if replay:
            rp = json.load(open(replay))
            if rp.get("scenario") == "m3t":
                _, fconf, _, _, _, _ = check_chan.free_check(prop, work, rp.get("seed", seed), 6, bool(rp.get("faults")))
                if fconf:
                    log("VIOLATION property=%s replay=%s" % (prop, replay))
                    return 1
                log("replay accepted")
                return 0
            if rp.get("chan"):
                t1, a1 = os.path.join(work, "re.ndjson"), os.path.join(work, "re-all.ndjson")
                for _ in range(2):
                    run_life(prop, t1, os.path.join(work, "re.json"), only=rp["scenario"], allout=a1)
                    _, r1, _, _ = check_chan.validate_file(a1, work, par=1)
                    if r1:
                        log("VIOLATION property=%s replay=%s" % (prop, replay))
                        return 1
                log("replay accepted")
                return 0
            if rp.get("scenario") == "m3":
                if check_prog.m3_replay(prop, rp, work, (6, 6, 40)):
                    log("VIOLATION property=%s replay=%s" % (prop, replay))
                    return 1
                log("replay accepted")
                return 0
            trace = os.path.join(work, "life.ndjson")
            run_life(prop, trace, os.path.join(work, "st.json"), only=rp["scenario"])
            bad, _, _ = validate_life(trace, work)
            if bad:
                log("VIOLATION property=%s replay=%s" % (prop, replay))
                return 1
            log("replay accepted")
            return 0
        # 1. design level
        states = trans = 0
        design = []

        def one(name):
            out, gen, dist, rc = tlc("ChannelMC", channel_cfg(name, devs), work, workers=8, timeout=3000)
            return name, out, gen, dist

        with ThreadPoolExecutor(max_workers=2) as ex:
            for name, out, gen, dist in ex.map(one, DESIGN[tier][prop]):
                if not tlc_ok(out):
                    raise Infra("design-level check of Channel.tla (%s) failed - the model, not the code:\n%s" %
                                (name, out[-3000:]))
                states += dist
                trans += gen
                design.append({"config": name, "states": dist, "transitions": gen})
                log("design level: Channel.tla %s: %d states generated, %d distinct, invariants hold (%s)" %
                    (name, gen, dist, OWN[prop]))
        # 2. scripted scenarios on the real library
        trace = os.path.join(work, "life.ndjson")
        allout = os.path.join(work, "life-all.ndjson")
        log(run_life(prop, trace, os.path.join(work, "st.json"), reps=REPS[tier], allout=allout))
        bad, tstates, lines = validate_life(trace, work)
        nscen = sum(1 for x in lines if '"ev":"Scen"' in x)
        infeasible = [json.loads(x) for x in lines if '"ev":"Scen"' in x and json.loads(x).get("infeasible")]
        reported = []
        unconfirmed = 0
        for hdr, rec in bad:
            if hdr.get("infeasible"):
                continue
            only = "%s:%s" % (hdr.get("name"), hdr.get("kind"))
            # quiescence is timing dependent: reproduce before reporting
            hits = 0
            for _ in range(2):
                t1 = os.path.join(work, "re.ndjson")
                run_life(prop, t1, os.path.join(work, "re.json"), only=only)
                b1, _, _ = validate_life(t1, work)
                hits += 1 if [b for b in b1 if not b[0].get("infeasible")] else 0
            if hits == 0:
                # seen once, not reproduced in two re-runs: not a verdict
                log("UNCONFIRMED (not a verdict): rejection of scenario %s did not reproduce" % only)
                unconfirmed += 1
                continue
            if len(reported) < 3:
                path = next_replay_path(prop)
                sec = [json.loads(x) for x in lines if json.loads(x).get("t") == rec.get("t")]
                json.dump({"property": prop, "scenario": only, "rejected": rec, "trace": sec}, open(path, "w"), indent=1)
                reported.append(path)
        still = []
        for h in infeasible:
            # the scenario could not be set up (a gate was not reached in time): try it again alone, twice
            only = "%s:%s" % (h["name"], h["kind"])
            ok = False
            for _ in range(2):
                t1 = os.path.join(work, "re.ndjson")
                run_life(prop, t1, os.path.join(work, "re.json"), only=only)
                b1, _, l1 = validate_life(t1, work)
                if not [x for x in l1 if '"ev":"Scen"' in x and json.loads(x).get("infeasible")]:
                    ok = True
                    if [b for b in b1 if not b[0].get("infeasible")] and len(reported) < 3:
                        path = next_replay_path(prop)
                        json.dump({"property": prop, "scenario": only, "rejected": b1[0][1]}, open(path, "w"), indent=1)
                        reported.append(path)
                    break
            if not ok:
                still.append(h)
        if still and not reported:
            raise Infra("infeasible scenarios: " + "; ".join("%s:%s %s" % (h["name"], h["kind"], h["infeasible"])
                                                            for h in still[:5]))
        # 2b. the same executions, every transport event, against Channel.tla action by action (ChannelTrace.tla)
        cacc, crej, cskip, cstates = check_chan.validate_file(allout, work)
        tstates += cstates
        chan_unconfirmed = 0
        for hdr, line, why, clines in crej:
            only = "%s:%s" % (hdr.get("name"), hdr.get("kind"))
            # an event order produced by two goroutines logging concurrently must not become a verdict: reproduce
            hits = 0
            for _ in range(2):
                t1, a1 = os.path.join(work, "re.ndjson"), os.path.join(work, "re-all.ndjson")
                run_life(prop, t1, os.path.join(work, "re.json"), only=only, allout=a1)
                _, r1, _, _ = check_chan.validate_file(a1, work, par=1)
                hits += 1 if r1 else 0
            # a scripted scenario on a tree that departs from the model is rejected every time; an interleaving of
            # two goroutines' log lines that the search cannot place is rare: the verdict needs all three executions
            if hits < 2:
                log("UNCONFIRMED (not a verdict): transport-level rejection of scenario %s (line %d: %s) was not rejected in "
                    "both re-runs (%d of 2)" % (only, line, why, hits))
                chan_unconfirmed += 1
                continue
            if len(reported) < 3:
                path = next_replay_path(prop)
                json.dump({"property": prop, "scenario": only, "chan": True, "line": line, "reason": why,
                           "trace": clines[:line + 1]}, open(path, "w"), indent=1)
                reported.append(path)
        log("transport level (ChannelTrace): %d scenario traces accepted, %d rejected, %d not projected" %
            (cacc, len(crej), len(cskip)))
        # 3. free workloads with cancellations at arbitrary instants
        m3calls = 0
        if prop in M3[tier]:
            m3calls, b3, ts, recs = check_prog.m3_run(prop, work, seed, M3[tier][prop], False)
            tstates += ts
            for rec in recs[:3]:
                path = next_replay_path(prop)
                json.dump(rec, open(path, "w"), indent=1)
                reported.append(path)
        m3fcalls = 0
        if prop in M3F[tier]:
            m3fcalls, b3, ts, recs = check_prog.m3_run(prop, work, seed, M3F[tier][prop], True, name="m3f")
            tstates += ts
            for rec in recs[:3]:
                path = next_replay_path(prop)
                json.dump(rec, open(path, "w"), indent=1)
                reported.append(path)
        # 4. small free workloads, every transport event of every node against Channel.tla (ChannelTrace)
        tfree = {"node_traces": 0, "events": 0, "calls": 0, "unconfirmed": 0}
        if prop in TFREE[tier]:
            fruns, ffaults = TFREE[tier][prop]
            facc, fconf, funconf, fstates, fev, fcalls = check_chan.free_check(prop, work, seed, fruns, ffaults)
            tstates += fstates
            tfree = {"node_traces": facc, "events": fev, "calls": fcalls, "unconfirmed": funconf, "faults": ffaults}
            for hdr, line, why, clines in fconf[:3]:
                path = next_replay_path(prop)
                json.dump({"property": prop, "scenario": "m3t", "chan": True, "faults": ffaults, "seed": seed, "line": line,
                           "reason": why, "trace": clines[max(0, line - 40):line + 1]}, open(path, "w"), indent=1)
                reported.append(path)
        samples = [json.loads(x) for x in lines[:6]]
        cov = {"states": states, "transitions": trans, "traces_validated_against_impl": nscen - len(bad),
               "evaluations": nscen + m3calls + m3fcalls, "distinct_nontrivial": nscen,
               "rule": "scenarios = every scripted lifecycle scenario of %s x every call kind (rpc, qc, async, corr, "
                       "corrstream, ucast/mcast with and without send-waiting), %d repetition(s); each reaches an "
                       "interleaving exhibited by TLC on Channel.tla with gates/faults; all are non-trivial (a context "
                       "end, crash, restart or Close inside the window of a call); plus %d calls of free workloads with "
                       "cancellations at arbitrary instants and %d calls of free workloads during which servers crash and "
                       "restart at random (every call must return, the tables must be empty at the end, and a final "
                       "all-node quorum call must succeed)" % (prop, REPS[tier], m3calls, m3fcalls),
               "samples": samples, "design_level": design, "deviations_enabled": devs, "trace_states": tstates,
               "m3_calls": m3calls, "m3_fault_calls": m3fcalls,
               "transport_level": {"accepted": cacc, "rejected": len(crej), "not_projected": len(cskip),
                                   "unconfirmed": chan_unconfirmed, "free_workloads": tfree},
               "unconfirmed_rejections": unconfirmed}
        write_evidence(prop, tier, seed, "model_checking", cov, time.time() - t0, len(reported),
                       ["liveness is read as safety over quiescent states: no library step enabled (model) / no library "
                        "event for the quiescence period (real runs); every gorums timer in the scenarios is far below "
                        "or far beyond that period",
                        "gRPC's own redial timer is environment (fired explicitly through a verif accessor)",
                        "a sender held at a gate stands for a sender blocked in SendMsg by a peer that does not read"])
        if reported:
            for pth in reported:
                log("VIOLATION property=%s replay=%s" % (prop, pth))
            return 1
        # transport-level traces that TLC could not decide within its budget: the lifecycle monitor (the statement of
        # the property over API-level events) has accepted every scenario at this point, so they are not verdicts and
        # not failures of the check; they are logged and counted
        for h, wh in [(h, w) for h, w in cskip if w.startswith("UNDECIDED")]:
            log("UNDECIDED (not a verdict): transport-level validation of scenario %s:%s (%s); the scenario was accepted "
                "by the lifecycle monitor" % (h.get("name"), h.get("kind"), wh))
        log("OK %s %s: %d scenarios accepted, design level %d states, in %.1fs" % (prop, tier, nscen, states, time.time() - t0))
        return 0
    finally:
        shutil.rmtree(work, ignore_errors=True)
