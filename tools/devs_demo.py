#!/usr/bin/env python3
"""Non-vacuity of the design-level properties of Channel.tla and Calls.tla: every
deviation the modules name (a defect the pinned tree had, now repaired) is enabled
alone, and TLC must report a violation of the invariant that stands for the
property; with Devs = {} the same configuration must pass.  Writes
specs/DEVIATIONS.txt.  This is a self-test of the model, not a check of /repo;
it is not registered for any property.  Exit 0 iff every deviation is found."""
import os
import re
import sys
import time

sys.path.insert(0, os.path.dirname(__file__))
import check_life  # noqa: E402
from vlib import VERIF, scratch, tlc, tlc_ok  # noqa: E402
import shutil  # noqa: E402

# deviation -> (configuration of check_life.CFG, invariants expected to be violated (any of))
CHANNEL = [
    ("StaleBrokenRead", "two-two-b0-noclose", ("NoLockWedge", "NoStrandedCall")),
    ("RcvSleepsThroughReconnect", "two-two-b0-noclose", ("NoStrandedCall",)),
    ("EnqIgnoresCtx", "two-two-w0", ("CtxPrompt",)),
    ("OneWayConfirmIgnoresCtx", "two-sw-w0", ("CtxPrompt",)),
    ("StreamRouteBlocksUnderRM", "stream-two-e2", ("NoStrandedCall", "CtxPrompt", "CloseTerminates", "NoResidue")),
    ("BufferedSendQStrands", "sw-nsw-b1", ("CloseTerminates", "NoStrandedCall")),
    ("RcvExitSkipsCancelPending", "two-two-b0-e2", ("CloseTerminates",)),
    ("SenderReconnectStrandsPending", "three-two-nocrash", ("NoResidue", "NoStrandedCall")),
    ("FailedReconnectNilStream", "two-two-b0-noclose", ("NoPanic",)),
    ("EnqueueBlocksOnOwnReplyChannel", "stream-foreign", ("CtxPrompt", "NoStrandedCall")),
    ("StreamDiesUnseen", "two-two-b0-noclose", ("NoStrandedCall", "NoResidue")),
]
RE_VIOL = re.compile(r"Invariant (\w+) is violated")
RE_DEPTH = re.compile(r"^State (\d+):", re.M)


def main():
    work = scratch("devs")
    rows = []
    ok = True
    try:
        for dev, cfg, expect in CHANNEL:
            t0 = time.time()
            out, gen, dist, _ = tlc("ChannelMC", check_life.channel_cfg(cfg, [dev]), work, workers=8, timeout=1500)
            m = RE_VIOL.search(out)
            depth = max([int(x) for x in RE_DEPTH.findall(out)] or [0])
            found = m.group(1) if m else "-"
            good = found in expect
            ok &= good
            rows.append("%-34s %-22s %-18s %3d states in the counterexample  %5.1fs  %s" %
                        (dev, cfg, found, depth, time.time() - t0, "found" if good else "NOT FOUND"))
            print(rows[-1], flush=True)
        with open(os.path.join(VERIF, "specs", "DEVIATIONS.txt"), "w") as f:
            f.write("Channel.tla: every named deviation enabled alone (Devs = {d}); TLC's first violated invariant.\n"
                    "With Devs = {} the same configurations pass (they are the design-level runs of bin/check).\n\n")
            f.write("\n".join(rows) + "\n")
        return 0 if ok else 1
    finally:
        shutil.rmtree(work, ignore_errors=True)


if __name__ == "__main__":
    sys.exit(main())
