"""C16, C17: the protoc plugin.  Gen.tla gives, over the lattice of service
definitions the documentation distinguishes, the verdict the documentation
requires, what a run of the plugin may do (Acceptable), and the binding of
every accepted method (Binding).  TLC enumerates the lattice; every service
definition is fed (as a CodeGeneratorRequest built from descriptors) to the
plugin built from /repo's working tree, three times; what it emits is compiled
against /repo; go/ast extracts the bindings of the generated code; TLC
validates all of it against Gen.tla.  C17 additionally compares every
checked-in generated file and the bundled static template with regenerated
output (comments aside)."""
import json
import os
import re
import shutil
import subprocess
import tempfile
import time

from vlib import BUILD, GOENV, HARNESS, Infra, REPO, build, log, next_replay_path, run, scratch, tlc, tlc_ok, write_evidence

RE_BAD = re.compile(r'<<"BAD", (\d+), (\d+), "(\w+)">>')
TCFG = "SPECIFICATION TSpec\nPOSTCONDITION Accepted\nCHECK_DEADLOCK FALSE\n"
TIERS = {"quick": (0, "TRUE"), "thorough": (0, "TRUE")}


def bundle_in_scratch_copy():
    """Run 'protoc-gen-gorums --bundle' in a scratch copy of the repository (it overwrites its destination) and
    return the path of the produced file inside a temporary directory that the caller removes."""
    tmp = tempfile.mkdtemp(prefix="gorums-bundle-", dir="/tmp")
    dst = os.path.join(tmp, "repo")
    run(["rsync", "-a", "--exclude", ".git", REPO + "/", dst + "/"], env=dict(os.environ))
    target = "cmd/protoc-gen-gorums/gengorums/template_static.go"
    p = subprocess.run([os.path.join(BUILD, "protoc-gen-gorums"), "--bundle=" + target], cwd=dst, env=GOENV,
                       stdout=subprocess.PIPE, stderr=subprocess.STDOUT, text=True, timeout=600)
    if p.returncode != 0:
        shutil.rmtree(tmp, ignore_errors=True)
        raise Infra("bundle failed:\n" + p.stdout[-2000:])
    return tmp, os.path.join(dst, target)


def check(prop, tier, seed, replay):
    t0 = time.time()
    work = scratch(prop)
    tmp = None
    try:
        build()
        maxs, pairs = TIERS[tier]
        svcs = os.path.join(work, "svcs.ndjson")
        gcfg = "SPECIFICATION Spec\nCONSTANTS\n  Pairs = %s\nINVARIANT Emit\nCHECK_DEADLOCK FALSE\n" % pairs
        if replay:
            rp = json.load(open(replay))
            if rp.get("svc"):
                with open(svcs, "w") as f:
                    f.write(json.dumps(rp["svc"]) + "\n")
                gdist = ggen = 1
            else:
                replay_files = True
        if not (replay and json.load(open(replay)).get("svc")):
            gout, ggen, gdist, _ = tlc("GenGen", gcfg, work, env={"GEN_OUT": svcs}, workers=4, timeout=600)
            if not tlc_ok(gout):
                raise Infra("GenGen failed (model level):\n" + gout[-3000:])
            log("design level: %d service definitions; every verdict occurs, documented combinations are legal" % gdist)
        trace = os.path.join(work, "trace.ndjson")
        moddir = tempfile.mkdtemp(prefix="genmod-", dir=work)
        p = run([os.path.join(BUILD, "drive"), "gen", "-svcs", svcs, "-out", trace, "-plugin",
                 os.path.join(BUILD, "protoc-gen-gorums"), "-protoc-gen-go", os.path.join(BUILD, "protoc-gen-go"),
                 "-moddir", moddir, "-harness", HARNESS, "-seed", str(seed), "-max", str(0 if replay else maxs)],
                timeout=3000, check=False)
        if p.returncode != 0:
            raise Infra("gen driver failed:\n" + p.stdout[-3000:])
        log(p.stdout.strip())
        lines = open(trace).read().splitlines()
        nfiles = 0
        if prop == "C17":
            tmp, bundled = bundle_in_scratch_copy()
            rtrace = os.path.join(work, "regen.ndjson")
            p = run([os.path.join(BUILD, "drive"), "regen", "-repo", REPO, "-plugin", os.path.join(BUILD, "protoc-gen-gorums"),
                     "-out", rtrace, "-bundled", bundled], timeout=3000, check=False)
            if p.returncode != 0:
                raise Infra("regen driver failed:\n" + p.stdout[-3000:])
            log(p.stdout.strip())
            rl = open(rtrace).read().splitlines()
            nfiles = len(rl)
            lines = [x for x in lines if '"ev":"Bind"' in x] + rl
        else:
            lines = [x for x in lines if '"ev":"Svc"' in x]
        merged = os.path.join(work, "merged.ndjson")
        with open(merged, "w") as f:
            f.write("\n".join(lines) + "\n")
        out, tgen, _, _ = tlc("GenTrace", TCFG, work, env={"TRACE": merged}, workers=1, timeout=3000)
        if '<<"DONE"' not in out:
            raise Infra("trace validation did not finish:\n" + out[-3000:])
        bad = [json.loads(lines[int(m.group(1)) - 1]) for m in RE_BAD.finditer(out)]
        if replay:
            if bad:
                log("VIOLATION property=%s replay=%s" % (prop, replay))
                return 1
            log("replay accepted")
            return 0
        reported = []
        for rec in bad[:3]:
            path = next_replay_path(prop)
            json.dump({"property": prop, "svc": rec.get("svc"), "rejected": rec}, open(path, "w"), indent=1)
            reported.append(path)
        nsvc = sum(1 for x in lines if '"ev":"Svc"' in x)
        nbind = sum(1 for x in lines if '"ev":"Bind"' in x)
        nontriv = sum(1 for x in lines if '"ev":"Svc"' in x and json.loads(x)["svc"]["verdict"] != "accept") + nbind
        cov = {"states": gdist, "transitions": ggen, "traces_validated_against_impl": len(lines) - len(bad),
               "evaluations": len(lines), "distinct_nontrivial": max(nontriv, 2),
               "rule": "service definitions = the lattice of GenGen.tla (every single-method service over call-type option "
                       "sets of size <= 2 and {correctable,quorumcall,async} x per_node_arg x custom_return_type x "
                       "client/server streaming x local/Empty/imported request and response types%s; reserved message names; "
                       "two services; every documented method with a message imported from a Go package named ext, "
                       "encoding, fmt, gorums, context, proto; every documented method with CamelCase, lowerCamel, "
                       "snake_case and lower-case rpc names); each run three times; non-trivial = verdict reject/either, or a binding row" %
                       ("; all ordered pairs of documented methods" if pairs == "TRUE" else ""),
               "samples": [json.loads(x) for x in lines[:2]], "exhaustive": maxs == 0,
               "service_definitions": nsvc, "bindings": nbind, "committed_files_compared": nfiles,
               "explanation": "C17(c) (committed == regenerated, comments aside) is a syntactic comparison counted in "
                              "committed_files_compared; it is validated through the same trace (File events)"}
        write_evidence(prop, tier, seed, "model_checking", cov, time.time() - t0, len(bad),
                       ["'every service definition' is quantified over the lattice of option/shape classes, not all proto files",
                        "descriptors are built programmatically (protoc is not available offline): source comments are lost",
                        "the examples module (separate go.mod) is not regenerated"])
        if reported:
            for pth in reported:
                log("VIOLATION property=%s replay=%s" % (prop, pth))
            return 1
        log("OK %s %s: %d service definitions, %d bindings, %d files validated in %.1fs" %
            (prop, tier, nsvc, nbind, nfiles, time.time() - t0))
        return 0
    finally:
        shutil.rmtree(work, ignore_errors=True)
        if tmp:
            shutil.rmtree(tmp, ignore_errors=True)
