"""Checks decided by the Calls layer (C01, C02, C06, C11): TLC checks the
properties on Calls.tla, TLC generates every lock-step behaviour of the
property's scenario family, the M1 driver replays them against the real
library, and TLC validates the recorded traces against CallsTrace.tla."""
import json
import os
import re
import shutil
import time
from concurrent.futures import ThreadPoolExecutor

from vlib import (BUILD, Infra, VERIF, build, log, next_replay_path, open_findings, run, scratch, tla_set, tlc,
                  tlc_ok, write_evidence)

INVARIANTS = {
    "C01": "OutIsQFVerdict QFNeverAfterQuorum QFSetsGrow QFNoFailedNode QFOnlyTargets QFCurrent",
    "C02": "OutcomeExact ReturnedOnlyWithOutcome QuiescentOK",
    "C06": "SkippedNotCounted ErrorsNameNodesOnce FailedNotReplied OneWayNoHandlerWait",
    "C11": "CorrPublishedAtOnce CorrDoneIffReturned CorrValueFromQF TypedGetTotal",
    "C07": "ErrorsNameNodesOnce FailedNotReplied QFNoFailedNode OutcomeExact",
}
ALL_INV = " ".join(sorted(set(" ".join(INVARIANTS.values()).split())))
WITNESS = {"C01": "W_Ok", "C02": "W_Incomplete", "C06": "W_Ctx", "C11": "W_CorrLevel", "C07": "W_Incomplete"}

# (MaxN of the design-level run, MaxN of the generator, histories replayed at most, shards)
TIERS = {
    "quick": {"C01": (2, 3, 0, 4), "C02": (2, 3, 0, 2), "C06": (2, 3, 0, 2), "C11": (2, 2, 0, 4), "C07": (2, 3, 320, 2)},
    "thorough": {"C01": (3, 3, 0, 8), "C02": (3, 4, 0, 8), "C06": (3, 4, 0, 8), "C11": (3, 3, 150000, 16),
                 "C07": (3, 3, 0, 8)},
}


def mc_cfg(maxn, devs, invariants, props=True):
    s = "SPECIFICATION Spec\nCONSTANTS\n  MaxN = %d\n  MaxItems = 2\n  Devs = %s\n" % (maxn, tla_set(devs))
    s += "INVARIANTS\n  %s\n" % invariants
    if props:
        s += "PROPERTIES\n  LevelMonotone DoneFinal OutFinal QFStepwise\n"
    return s + "CHECK_DEADLOCK FALSE\n"


def gen_cfg(maxn, family, devs):
    return ("SPECIFICATION GSpec\nCONSTANTS\n  MaxN = %d\n  MaxItems = 2\n  Devs = %s\n  Family = \"%s\"\n"
            "INVARIANTS Emit\nCHECK_DEADLOCK FALSE\n" % (maxn, tla_set(devs), family))


def trace_cfg(devs):
    return ("SPECIFICATION TSpec\nCONSTANTS\n  MaxItems = 3\n  Devs = %s\nINVARIANT TraceInv\n"
            "PROPERTIES TLevelMonotone TDoneFinal TOutFinal TQFStepwise\nPOSTCONDITION Accepted\n"
            "CHECK_DEADLOCK FALSE\n" % tla_set(devs))


RE_BAD = re.compile(r'<<"BAD", (\d+), (\d+), "(\w+)">>')


def split_trace(path, shards, work):
    """Split a trace file into shards at scenario boundaries."""
    scen = []
    cur = None
    with open(path) as f:
        for line in f:
            if line.startswith('{"ev":"Scenario"'):
                cur = []
                scen.append(cur)
            if cur is None:
                raise Infra("trace does not start with a scenario: " + path)
            cur.append(line)
    shards = max(1, min(shards, len(scen)))
    files = []
    for i in range(shards):
        p = os.path.join(work, "shard-%d-%d.ndjson" % (os.getpid(), i))
        with open(p, "w") as f:
            for s in scen[i::shards]:
                f.writelines(s)
        files.append(p)
    return files, scen


def validate(path, shards, devs, work):
    """Validate a trace file; returns (bad scenarios [(t, event, line text)], scenarios, lines, states)."""
    files, scen = split_trace(path, shards, work)

    def one(p):
        out, gen, dist, rc = tlc("CallsTrace", trace_cfg(devs), work, env={"TRACE": p}, workers=1, timeout=3000)
        return p, out, gen, rc

    bad = []
    states = 0
    with ThreadPoolExecutor(max_workers=len(files)) as ex:
        for p, out, gen, rc in ex.map(one, files):
            nlines = sum(1 for _ in open(p))
            if '<<"DONE"' not in out:
                raise Infra("trace validation did not finish:\n" + out[-3000:])
            if "Error:" in out and "is violated" in out:
                # an invariant or action property of Calls is false in a state of the trace
                m = re.search(r"/\\ l = (\d+)", out[out.rfind("Error:"):]) or re.search(r"/\\ l = (\d+)", out)
                lines = open(p).read().splitlines()
                ln = int(m.group(1)) if m else 1
                rec = json.loads(lines[min(ln, len(lines)) - 1])
                what = re.search(r"Error: (.*) is violated", out)
                bad.append((rec.get("t", -1), "INVARIANT " + (what.group(1) if what else "?"), lines[min(ln, len(lines)) - 1]))
            for m in RE_BAD.finditer(out):
                ln, t, ev = int(m.group(1)), int(m.group(2)), m.group(3)
                bad.append((t, ev, open(p).read().splitlines()[ln - 1]))
            states += gen
            os.remove(p)
    return bad, scen, states


def scenario_lines(scen, t):
    for s in scen:
        if json.loads(s[0]).get("t") == t:
            return s
    return []


def drive_calls(hist, out, stats, seed, maxh, nodes, par=4, procs=1):
    if procs > 1:
        return drive_calls_parallel(hist, out, stats, seed, maxh, nodes, procs)
    cmd = [os.path.join(BUILD, "drive"), "calls", "-hist", hist, "-out", out, "-stats", stats, "-seed", str(seed),
           "-max", str(maxh), "-par", str(par), "-nodes", str(nodes)]
    p = run(cmd, timeout=3000, check=False)
    if p.returncode != 0:
        raise Infra("driver failed:\n" + p.stdout[-3000:])
    return json.load(open(stats))


def drive_calls_parallel(hist, out, stats, seed, maxh, nodes, procs):
    """Fault scenarios use a fresh environment each (servers are stopped): run several drivers side by side."""
    import random
    lines = open(hist).read().splitlines()
    total = len(lines)
    random.Random(seed).shuffle(lines)
    if maxh and len(lines) > maxh:
        # stratified: a third of the sample are histories in which a failed node comes back and fails again
        flap = [x for x in lines if '\\"flap\\"' in x or '"flap"' in x]
        rest = [x for x in lines if x not in set(flap)] if flap else lines
        nf = min(len(flap), maxh // 3)
        lines = flap[:nf] + rest[:maxh - nf]
    parts = [lines[i::procs] for i in range(procs)]

    def one(i):
        h = "%s.part%d" % (hist, i)
        with open(h, "w") as f:
            f.write("\n".join(parts[i]) + "\n")
        o, st = "%s.part%d" % (out, i), "%s.part%d" % (stats, i)
        p = run([os.path.join(BUILD, "drive"), "calls", "-hist", h, "-out", o, "-stats", st, "-seed", str(seed), "-max", "0",
                 "-par", "1", "-nodes", str(nodes)], timeout=3000, check=False)
        if p.returncode != 0:
            raise Infra("driver failed (exit %d):\n%s" % (p.returncode, p.stdout[-3000:]))
        return o, json.load(open(st))

    agg = {"generated": total, "replayed": 0, "distinct_nontrivial": 0, "events": 0, "quiescent_events": 0, "wall_s": 0.0,
           "exhaustive": len(lines) == total, "samples": []}
    with ThreadPoolExecutor(max_workers=procs) as ex, open(out, "w") as fo:
        base = 0
        for o, st in ex.map(one, range(procs)):
            for line in open(o):
                rec = json.loads(line)
                rec["t"] = rec.get("t", 0) + base
                fo.write(json.dumps(rec, separators=(",", ":")) + "\n")
            base += st["replayed"]
            for k in ("replayed", "distinct_nontrivial", "events", "quiescent_events"):
                agg[k] += st[k]
            agg["wall_s"] = max(agg["wall_s"], st["wall_s"])
            agg["samples"] = agg["samples"] or st["samples"]
    json.dump(agg, open(stats, "w"))
    return agg


def rerun_scenario(lines, devs, work, nodes):
    """Replay one scenario alone and validate it; True if it is rejected again."""
    sc = json.loads(lines[0])
    hist = os.path.join(work, "rerun-hist.ndjson")
    with open(hist, "w") as f:
        f.write(json.dumps({"sc": sc["sc"], "h": sc["h"], "out": "", "stuck": False}) + "\n")
    out = os.path.join(work, "rerun-trace.ndjson")
    drive_calls(hist, out, os.path.join(work, "rerun-stats.json"), 1, 0, nodes, par=1)
    bad, _, _ = validate(out, 1, devs, work)
    return len(bad) > 0, open(out).read().splitlines()


SYS_PROPS = ("C01", "C02", "C07")


def check(prop, tier, seed, replay):
    t0 = time.time()
    work = scratch(prop)
    violations = 0
    try:
        mc_n, gen_n, maxh, shards = TIERS[tier][prop]
        nodes = max(gen_n, 3)
        b = build()
        log("built harness from /repo in %.1fs" % b)
        opens = open_findings(module="Calls")
        devs = sorted(k["key"] for k in opens)
        if replay:
            rp = json.load(open(replay))
            if rp.get("scenario") == "sys":
                import check_sys
                again = check_sys.replay(prop, rp, work)
            else:
                again, lines = rerun_scenario(rp["scenario"], devs, work, nodes)
            if again:
                log("VIOLATION property=%s replay=%s" % (prop, replay))
                return 1
            log("replay accepted")
            return 0
        # 1. design level: the property's invariants on the model, every scenario up to mc_n nodes
        out, gen, dist, rc = tlc("CallsMC", mc_cfg(mc_n, devs, ALL_INV), work, workers=16, timeout=1500)
        if not tlc_ok(out):
            raise Infra("design-level check of Calls failed (the model, not the code):\n" + out[-3000:])
        log("design level: Calls.tla MaxN=%d: %d states generated, %d distinct, all invariants hold" % (mc_n, gen, dist))
        # vacuity: the witness invariant must be violated
        wout, _, _, _ = tlc("CallsMC", mc_cfg(2, devs, WITNESS[prop], props=False), work, workers=4, timeout=600)
        if "is violated" not in wout:
            raise Infra("vacuity witness %s not reachable" % WITNESS[prop])
        # 2. generator: every lock-step behaviour of the property's scenario family
        hist = os.path.join(work, "hist.ndjson")
        gout, ggen, gdist, _ = tlc("CallsGen", gen_cfg(gen_n, prop, []), work, env={"GEN_OUT": hist}, workers=8,
                                   timeout=1500)
        if not tlc_ok(gout) or not os.path.exists(hist):
            raise Infra("generator failed:\n" + gout[-3000:])
        # 3. replay against the real library
        trace = os.path.join(work, "trace.ndjson")
        st = drive_calls(hist, trace, os.path.join(work, "stats.json"), seed, maxh, nodes, procs=8 if prop == "C07" else 1)
        log("replayed %d of %d generated histories (%d events) in %.1fs" %
            (st["replayed"], st["generated"], st["events"], st["wall_s"]))
        # 4. validate the recorded traces
        bad, scen, tstates = validate(trace, shards, devs, work)
        accepted = len(scen) - len({t for t, _, _ in bad})
        log("trace validation: %d scenarios, %d accepted" % (len(scen), accepted))
        known_lines = []
        if devs and not bad:
            # which open findings were needed?  validate again without each of them
            for k in opens:
                if k["property"] != prop:
                    continue
                b2, _, _ = validate(trace, shards, [d for d in devs if d != k["key"]], work)
                if b2:
                    known_lines.append("KNOWN-FINDING: property=%s %s (%d scenarios need deviation %s)" %
                                       (prop, k["what"], len({t for t, _, _ in b2}), k["key"]))
        # 5. verdict
        reported = []
        for t, ev, line in sorted(bad)[:20]:
            lines = scenario_lines(scen, t)
            confirmed = True
            if ev == "Quiescent":
                # the only timing-dependent event: report only if it reproduces
                r1, _ = rerun_scenario(lines, devs, work, nodes)
                r2, _ = rerun_scenario(lines, devs, work, nodes)
                confirmed = r1 or r2
            if not confirmed:
                # seen once, not reproduced in two re-runs of the same scenario: not a verdict
                log("UNCONFIRMED (not a verdict): quiescence-based rejection of scenario %d did not reproduce" % t)
                continue
            path = next_replay_path(prop)
            with open(path, "w") as f:
                json.dump({"property": prop, "rejected_event": ev, "rejected_line": json.loads(line),
                           "scenario": lines, "devs": devs}, f, indent=1)
            reported.append(path)
            if len(reported) >= 3:
                break
        for kl in known_lines:
            log(kl)
        # 6. system level: free concurrent workloads validated event by event against the composition Gorums.tla
        syscov = None
        if prop in SYS_PROPS:
            import check_sys
            sysdesign = check_sys.design_level(work, tier)
            log("design level: Gorums.tla (%s): %d distinct states, invariants hold" % (sysdesign["config"], sysdesign["states"]))
            # C07: with servers crashing and restarting at random while the workload runs
            syscov, sysbad = check_sys.phase(prop, tier, seed, work, reported, faults=(prop == "C07"))
            syscov["design_level"] = sysdesign
            accepted += syscov["accepted"]
        violations = len(reported)
        samples = [json.loads(s[0]) for s in scen[:2]]
        if scen:
            samples.append({"trace_excerpt": [json.loads(x) for x in scen[0][1:8]]})
        cov = {
            "states": dist, "transitions": gen,
            "traces_validated_against_impl": accepted,
            "evaluations": st["replayed"], "distinct_nontrivial": st["distinct_nontrivial"],
            "rule": "histories = all lock-step environment behaviours TLC enumerates for the scenario family of %s "
                    "(CallsGen.tla, MaxN=%d); distinct by JSON text; non-trivial = at least one reply and (a second "
                    "reply, an error, a context end or a skipped/own per-node argument)" % (prop, gen_n),
            "samples": samples,
            "exhaustive": bool(st["exhaustive"]),
            "generator_histories": st["generated"], "trace_events": st["events"], "trace_states": tstates,
            "design_level": {"module": "CallsMC", "MaxN": mc_n, "invariants": ALL_INV.split(),
                             "witness_reached": WITNESS[prop]},
            "deviations_enabled": devs, "known_findings_reported": known_lines,
            "quiescent_events": st["quiescent_events"],
        }
        if syscov:
            cov["system_level_free_workloads"] = syscov
        write_evidence(prop, tier, seed, "fault_enumeration" if prop == "C07" else "model_checking", cov,
                       time.time() - t0, violations,
                       ["gRPC, HTTP/2, the Go runtime and protobuf are environment",
                        "environment acts in lock-step (only when the library is quiescent); races between an "
                        "environment action and a library step belong to the transport checks",
                        "Quiescent events are the only timing-dependent input (period 3 s) and are re-run before "
                        "being reported"])
        if reported:
            for p in reported:
                log("VIOLATION property=%s replay=%s" % (prop, p))
            return 1
        log("OK %s %s: %d histories replayed and accepted in %.1fs" % (prop, tier, accepted, time.time() - t0))
        return 0
    finally:
        shutil.rmtree(work, ignore_errors=True)
