"""System-level validation (Gorums.tla): free concurrent workloads of every call
type on three overlapping configurations are recorded with every event of every
layer (calls, channels, servers, handlers, quorum functions) and TLC validates
each run, event by event, against the composition Gorums.tla (GorumsTrace.tla).
The workloads have slow quorum functions (replies pile up behind an invocation),
contexts ending at arbitrary instants, late and failing handlers, and message
id jumps of 2^32 - d (the id space after 2^32 calls).  Used as an additional
phase by the checks of C01, C02, C05, C07 (and C03/C04 in the thorough tier)."""
import json
import os
import re
import time
from concurrent.futures import ThreadPoolExecutor

from vlib import BUILD, Infra, log, next_replay_path, run, tlc, tlc_ok

TCFG = "SPECIFICATION TSpec\nINVARIANT TraceInv\nPOSTCONDITION Accepted\nCHECK_DEADLOCK FALSE\n"
RE_BAD = re.compile(r'<<"BAD", (\d+), (\d+), "(\w+)">>')

# what each property reads off this validation
OWNS = {
    "C01": "InvokeQF (once per consumed reply, exactly the consumed replies, never after a quorum), Consume, StubOK",
    "C02": "OutcomeOK/Finish (ok iff quorum, incomplete iff exhausted, ctx only after the context ended), StubOK",
    "C03": "Dequeue (queue order), SrvRecv (write order per connection), HandlerStart (reception order)",
    "C04": "HandlerStart requires no unreleased handler on the connection",
    "C05": "Start (ids manager-wide unique), ReplyChain, RouteWire, Consume, Register/Deliver/Drop",
    "C06": "Skip/Offer/Enq/Issued (each node visited once, in order; expected = nodes sent to), HandlerStart on targets only",
    "C07": "Consume (a failing node counts once), Exhausted, StubOK (error counts and node list)",
}

TIERS = {"quick": (12, 4, 14), "thorough": (48, 6, 16)}


def design_level(work, tier):
    """GorumsMC: the composition explored exhaustively for a small universe."""
    base = ("SPECIFICATION MCSpec\nINVARIANT GorumsInv\nINVARIANT MCTypeOK\nCONSTRAINT MCBound\nCHECK_DEADLOCK FALSE\n"
            "CONSTANTS\n  MaxWritten = %d\n  TwoCalls = %s\n  SecondConn = %s\n  NNodes = %d\n  Kinds = %s\n")
    configs = [("one quorum call, 2 nodes", (1, "FALSE", "FALSE", 2, '{"qc"}'))]
    if tier == "thorough":
        configs += [("one rpc or multicast, 2 nodes", (1, "FALSE", "FALSE", 2, '{"rpc", "mcast"}')),
                    ("two quorum calls, 1 node", (2, "TRUE", "FALSE", 1, '{"qc"}')),
                    ("one quorum call, 2 nodes, re-created stream", (2, "FALSE", "TRUE", 2, '{"qc"}'))]
    states = trans = 0
    for name, c in configs:
        out, gen, dist, rc = tlc("GorumsMC", base % c, work, workers=16, timeout=2400)
        if not tlc_ok(out):
            raise Infra("design-level check of Gorums.tla (%s) failed (the model, not the code):\n%s" % (name, out[-3000:]))
        states += dist
        trans += gen
    # vacuity: the witnesses must be reachable (their negations violated)
    wcfg = base.replace("INVARIANT GorumsInv\nINVARIANT MCTypeOK", "INVARIANT W_QuorumOfTwo") % configs[0][1]
    wout, _, _, _ = tlc("GorumsMC", wcfg, work, workers=8, timeout=600)
    if "W_QuorumOfTwo is violated" not in wout:
        raise Infra("witness W_QuorumOfTwo not reachable in GorumsMC:\n" + wout[-1500:])
    return {"module": "GorumsMC", "config": "; ".join(n for n, _ in configs), "states": states, "transitions": trans,
            "witness_reached": "W_QuorumOfTwo"}


def sys_free(work, seed, runs, goroutines, calls, faults=False, name="sys"):
    """Record `runs` free workloads with every event and validate each against GorumsTrace.
    Returns a dict with sections, accepted, bad [(run, event, record, tail)], states, events, calls."""
    tr = os.path.join(work, name + ".ndjson")
    st = os.path.join(work, name + ".json")
    cmd = [os.path.join(BUILD, "drive"), "m3", "-out", tr, "-stats", st, "-seed", str(seed), "-runs", str(runs),
           "-goroutines", str(goroutines), "-calls", str(calls), "-cancel", "any", "-alphabet", "all",
           "-idjump", "-qfdelay", "30"]
    if faults:
        cmd.append("-faults")
    p = run(cmd, timeout=3000, check=False)
    if p.returncode != 0:
        m = re.search(r"(panic: .*?\n\ngoroutine \d+ \[running\]:\n(github\.com/relab/gorums\.\S+)[^\n]*\n[^\n]*)", p.stdout, re.S)
        if m and "Verif" not in m.group(2):
            return {"sections": 0, "accepted": 0, "states": 0, "events": 0, "calls": 0,
                    "bad": [(0, "ProcessDied", {"what": m.group(1)[-2000:]}, [])]}
        raise Infra("m3 driver failed:\n" + p.stdout[-3000:])
    ncalls = json.load(open(st))["calls"]
    secs, cur = [], None
    for line in open(tr):
        if line.startswith('{"ev":"Prog"'):
            cur = []
            secs.append(cur)
        if cur is not None:
            cur.append(line)
    files = []
    for i, s in enumerate(secs):
        f = os.path.join(work, "%s-sec%d.ndjson" % (name, i))
        open(f, "w").writelines(s)
        files.append(f)

    def one(f):
        out, gen, dist, rc = tlc("GorumsTrace", TCFG, work, env={"TRACE": f}, workers=1, timeout=1500)
        return f, out, gen

    bad, states, events = [], 0, 0
    with ThreadPoolExecutor(max_workers=min(12, max(1, len(files)))) as ex:
        for i, (f, out, gen) in enumerate(ex.map(one, files)):
            lines = open(f).read().splitlines()
            events += len(lines)
            states += gen
            if "is violated" in out:
                m = re.search(r"/\\ l = (\d+)", out[out.rfind("Error:"):])
                ln = max(1, int(m.group(1)) - 1) if m else 1
                what = re.search(r"Error: Invariant (\w+) is violated", out)
                rec = json.loads(lines[min(ln, len(lines)) - 1])
                bad.append((i, "INVARIANT " + (what.group(1) if what else "?"), rec, lines[max(0, ln - 60):ln]))
            elif '<<"DONE"' not in out:
                raise Infra("system-level trace validation did not finish:\n" + out[-3000:])
            for m in RE_BAD.finditer(out):
                ln = int(m.group(1))
                rec = json.loads(lines[ln - 1])
                tok = rec.get("tok")
                tail = [x for x in lines[:ln] if '"tok":%d,' % tok in x or '"tok":%d}' % tok in x][-80:] if tok else lines[max(0, ln - 60):ln]
                bad.append((i, m.group(3), rec, tail))
            os.remove(f)
    return {"sections": len(secs), "accepted": len(secs) - len({b[0] for b in bad}), "bad": bad, "states": states,
            "events": events, "calls": ncalls}


def phase(prop, tier, seed, work, reported, faults=False):
    """Run the system-level phase for a property's check.  Appends replay files to `reported`; returns the
    coverage dictionary for the evidence file and the number of rejected runs."""
    runs, gor, calls = TIERS[tier]
    t0 = time.time()
    res = sys_free(work, seed, runs, gor, calls, faults=faults)
    for i, ev, rec, tail in res["bad"][:3]:
        path = next_replay_path(prop)
        json.dump({"property": prop, "scenario": "sys", "seed": seed, "run": i, "faults": faults, "rejected_event": ev,
                   "rejected": rec, "tier": tier, "trace_tail": [json.loads(x) for x in tail]}, open(path, "w"), indent=1)
        reported.append(path)
    log("system level (Gorums.tla): %d free runs, %d calls, %d events validated event by event, %d accepted (%.1fs)" %
        (res["sections"], res["calls"], res["events"], res["accepted"], time.time() - t0))
    cov = {"module": "GorumsTrace", "runs": res["sections"], "accepted": res["accepted"], "calls": res["calls"],
           "events": res["events"], "trace_states": res["states"], "decides": OWNS.get(prop, ""),
           "workload": "%d goroutines x %d calls, all 16 methods, 3 overlapping configurations, 30%% slow quorum "
                       "functions, contexts ending at arbitrary instants, late/failing handlers, id jumps of 2^32-d"
                       % (gor, calls)}
    return cov, len({b[0] for b in res["bad"]})


def replay(prop, rp, work):
    """Free workloads are not reproducible event by event: re-run the recorded seed a few times."""
    runs, gor, calls = TIERS[rp.get("tier", "quick")]
    for i in range(3):
        res = sys_free(work, rp["seed"], runs, gor, calls, faults=bool(rp.get("faults")), name="re%d" % i)
        if res["bad"]:
            return True
    return False
