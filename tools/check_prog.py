"""Checks decided on program traces (C03, C04; routing layer C05, C07, C18):
TLC enumerates programs (sequences of calls with scripted handlers), the
driver executes them on the real library and records one trace section per
program, TLC validates the sections against the layer's trace spec."""
import json
import os
import re
import shutil
import time
from concurrent.futures import ThreadPoolExecutor

from vlib import BUILD, Infra, build, log, next_replay_path, run, scratch, tlc, tlc_ok, write_evidence

RE_BAD = re.compile(r'<<"BAD", (\d+), (\d+), "(\w+)">>')
RE_EV = re.compile(r'"ev":"(\w+)"')
ROUTING_ALPHABET = {"RegisterRouter", "Route", "DeleteRouter", "CallRecv", "CallEnd", "HStart", "QF", "StubRet", "Routers",
                    "ProgEnd", "Quiescent", "Probe"}


def split(trace, shards, work, header='{"ev":"Prog"'):
    secs, cur = [], None
    for line in open(trace):
        if line.startswith(header):
            cur = []
            secs.append(cur)
        if cur is None:
            raise Infra("trace does not start with a header")
        cur.append(line)
    shards = max(1, min(shards, len(secs)))
    files = []
    for i in range(shards):
        p = os.path.join(work, "pshard-%d-%d.ndjson" % (time.time_ns() % 10**9, i))
        with open(p, "w") as f:
            for x in secs[i::shards]:
                f.writelines(x)
        files.append(p)
    return files, secs


def validate(trace, module, cfg, shards, work, header='{"ev":"Prog"'):
    files, secs = split(trace, shards, work, header)

    def one(p):
        out, gen, dist, rc = tlc(module, cfg, work, env={"TRACE": p}, workers=1, timeout=3000)
        return p, out, gen

    bad, states = [], 0
    with ThreadPoolExecutor(max_workers=len(files)) as ex:
        for p, out, gen in ex.map(one, files):
            if '<<"DONE"' not in out:
                raise Infra("trace validation did not finish:\n" + out[-3000:])
            lines = open(p).read().splitlines()
            if "is violated" in out:
                m = re.search(r"/\\ l = (\d+)", out[out.rfind("Error:"):])
                ln = max(1, int(m.group(1)) - 1) if m else 1
                rec = json.loads(lines[min(ln, len(lines)) - 1])
                what = re.search(r"Error: (.*) is violated", out)
                bad.append((rec.get("t", -1), "INVARIANT " + (what.group(1) if what else "?"), rec))
            for m in RE_BAD.finditer(out):
                bad.append((int(m.group(2)), m.group(3), json.loads(lines[int(m.group(1)) - 1])))
            states += gen
            os.remove(p)
    return bad, secs, states


def section(secs, t):
    for s in secs:
        if json.loads(s[0]).get("t") == t:
            return s
    return []


def drive_prog(progs, trace, stats, seed, maxp, sendbuf, alphabet, window):
    cmd = [os.path.join(BUILD, "drive"), "prog", "-progs", progs, "-out", trace, "-stats", stats, "-seed", str(seed),
           "-max", str(maxp), "-sendbuf", str(sendbuf), "-alphabet", alphabet, "-window", str(window)]
    p = run(cmd, timeout=3000, check=False)
    return p


FIFO_TCFG = "SPECIFICATION TSpec\nINVARIANT TraceInv\nPOSTCONDITION Accepted\nCHECK_DEADLOCK FALSE\n"

TIERS = {
    # programs per send-buffer setting, 3-call programs, shards, window ms
    "quick": {"C03": (900, False, 4, 5), "C04": (0, False, 4, 20)},
    "thorough": {"C03": (0, True, 16, 10), "C04": (0, True, 8, 40)},
}


def check_fifo(prop, tier, seed, replay):
    t0 = time.time()
    work = scratch(prop)
    try:
        build()
        maxp, len3, shards, window = TIERS[tier][prop]
        progs = os.path.join(work, "progs.ndjson")
        gdist = ggen = 0
        if replay:
            rp = json.load(open(replay))
            if rp.get("scenario") == "sys":
                import check_sys
                if check_sys.replay(prop, rp, work):
                    log("VIOLATION property=%s replay=%s" % (prop, replay))
                    return 1
                log("replay accepted")
                return 0
            if rp.get("life"):
                settings = []
            else:
                with open(progs, "w") as f:
                    f.write(json.dumps(rp["prog"]) + "\n")
                settings = [rp.get("sendbuf", 0)]
            maxp = 0
        else:
            gcfg = ("SPECIFICATION Spec\nCONSTANTS\n  Family = \"%s\"\n  Len3 = %s\nINVARIANT Emit\nCHECK_DEADLOCK FALSE\n"
                    % (prop, "TRUE" if len3 else "FALSE"))
            gout, ggen, gdist, _ = tlc("FifoGen", gcfg, work, env={"GEN_OUT": progs}, workers=8, timeout=1500)
            if not tlc_ok(gout):
                raise Infra("FifoGen failed:\n" + gout[-3000:])
            settings = [0, 2]
        total_exec = total_calls = total_events = nontriv = tstates = 0
        samples, reported, allbad = [], [], 0
        exhaustive = True
        # design level: the ordering design itself (callers, send queue, sender, network, server loop with the
        # hand-over mutex) explored exhaustively in Channel.tla
        dstates = dtrans = 0
        design = []
        if not replay:
            import check_life
            for name in (["q-two-two-crash", "q-sw-nsw-b1"] if tier == "quick" else
                         ["t-two-two-b0", "t-two-two-b1", "sw-nsw-b1", "t-three-b0", "t-stream-two"]):
                out, gen, dist, rc = tlc("ChannelMC", check_life.channel_cfg(name, []), work, workers=16, timeout=3000)
                if not tlc_ok(out):
                    raise Infra("design-level check of Channel.tla (%s) failed:\n%s" % (name, out[-3000:]))
                dstates += dist
                dtrans += gen
                design.append({"config": name, "states": dist, "transitions": gen})
                log("design level: Channel.tla %s: %d distinct states; FifoPerConn, NoDoubleStart, OneUnreleased hold" %
                    (name, dist))
        for sb in settings:
            trace = os.path.join(work, "trace-%d.ndjson" % sb)
            stats = os.path.join(work, "stats-%d.json" % sb)
            p = drive_prog(progs, trace, stats, seed + sb, maxp, sb, "fifo", window)
            if p.returncode != 0:
                # the driver died: a runtime fatal error of the library under test (e.g. unlock of
                # unlocked mutex in a broken Release) cannot be recovered in-process
                if "fatal error" in p.stdout or "panic" in p.stdout:
                    path = next_replay_path(prop)
                    json.dump({"property": prop, "process_died": p.stdout[-3000:], "sendbuf": sb, "seed": seed},
                              open(path, "w"), indent=1)
                    log("VIOLATION property=%s replay=%s" % (prop, path))
                    return 1
                raise Infra("driver failed:\n" + p.stdout[-3000:])
            st = json.load(open(stats))
            log("sendbuf=%d: %s" % (sb, p.stdout.strip()))
            bad, secs, ts = validate(trace, "FifoTrace", FIFO_TCFG, shards, work)
            tstates += ts
            total_exec += st["executed"]
            total_calls += st["calls"]
            total_events += st["events"]
            nontriv += st["distinct_nontrivial"]
            exhaustive = exhaustive and st["exhaustive"]
            samples = samples or st["samples"]
            allbad += len({t for t, _, _ in bad})
            for t, ev, rec in sorted(bad, key=lambda b: b[0])[:3]:
                sec = section(secs, t)
                confirmed = True
                if ev in ("Quiescent", "ProgEnd") and not replay:
                    # timing-dependent: reproduce alone before reporting
                    one = os.path.join(work, "one.ndjson")
                    with open(one, "w") as f:
                        f.write(json.dumps(json.loads(sec[0])["prog"]) + "\n")
                    hits = 0
                    for _ in range(2):
                        t1 = os.path.join(work, "one-trace.ndjson")
                        p1 = drive_prog(one, t1, os.path.join(work, "one-stats.json"), seed, 0, sb, "fifo", window)
                        if p1.returncode != 0:
                            hits += 1
                            continue
                        b1, _, _ = validate(t1, "FifoTrace", FIFO_TCFG, 1, work)
                        hits += 1 if b1 else 0
                    confirmed = hits > 0
                if not confirmed:
                    # seen once, not reproduced in two re-runs of the same program: not a verdict
                    log("UNCONFIRMED (not a verdict): timing-dependent rejection of program %d (%s) did not reproduce" % (t, ev))
                    allbad -= 1
                    continue
                if len(reported) < 3:
                    path = next_replay_path(prop)
                    json.dump({"property": prop, "prog": json.loads(sec[0])["prog"], "sendbuf": sb, "rejected_event": ev,
                               "rejected": rec, "trace": [json.loads(x) for x in sec]}, open(path, "w"), indent=1)
                    reported.append(path)
        # C03: FIFO across a stream break with a send buffer (scripted scenario, validated by the same monitor)
        nscen = 0
        if prop == "C03" and (not replay or json.load(open(replay)).get("life")):
            import check_life
            lt = os.path.join(work, "life.ndjson")
            only = json.load(open(replay))["scenario"] if replay else None
            log(check_life.run_life("C03", lt, os.path.join(work, "life.json"), only=only, reps=1 if tier == "quick" else 5))
            if '"infeasible":"' in open(lt).read().replace('"infeasible":""', ""):
                raise Infra("infeasible C03 scenario")
            lbad, lsecs, ts = validate(lt, "FifoTrace", FIFO_TCFG, 1, work, header='{"ev":"Scen"')
            tstates += ts
            nscen = len(lsecs)
            allbad += len({t for t, _, _ in lbad})
            for t, ev, rec in lbad[:3]:
                hdr = json.loads(section(lsecs, t)[0])
                path = next_replay_path(prop)
                json.dump({"property": prop, "life": True, "scenario": "%s:%s" % (hdr["name"], hdr["kind"]),
                           "rejected_event": ev, "rejected": rec}, open(path, "w"), indent=1)
                reported.append(path)
        if replay:
            if allbad:
                log("VIOLATION property=%s replay=%s" % (prop, replay))
                return 1
            log("replay accepted")
            return 0
        # thorough tier: free concurrent workloads validated against the composition Gorums.tla (Dequeue in queue
        # order, SrvRecv in write order, HandlerStart in reception order with no unreleased handler)
        syscov = None
        if tier == "thorough":
            import check_sys
            syscov, sysbad = check_sys.phase(prop, tier, seed, work, reported)
            allbad += sysbad
        cov = {"states": max(dstates, 1), "transitions": max(dtrans, 1),
               "traces_validated_against_impl": total_exec - allbad,
               "evaluations": total_exec, "distinct_nontrivial": nontriv,
               "rule": "programs = the %s family of FifoGen.tla (ordered pairs%s of call variants over all 16 Puppet methods "
                       "x send-waiting x handler behaviours), each executed with send buffer 0 and 2; non-trivial = at "
                       "least one call has a slow, holding, failing or multiply-releasing handler" %
                       (prop, " and selected triples" if len3 else ""),
               "samples": samples, "exhaustive": exhaustive, "programs_generated": gdist, "calls": total_calls,
               "trace_events": total_events, "trace_states": tstates, "send_buffers": settings,
               "stream_break_scenarios": nscen,
               "design_level": design}
        if syscov:
            cov["system_level_free_workloads"] = syscov
        write_evidence(prop, tier, seed, "model_checking", cov, time.time() - t0, allbad,
                       ["Before(c1,c2) is taken from the driver's StubRet/StubCall events (happens-before of one goroutine)",
                        "a premature handler start is rejected whenever it is recorded; the observation window only "
                        "affects detection power",
                        "ProgEnd/Quiescent rejections are timing-dependent (3 s) and are re-run before being reported"])
        if reported:
            for pth in reported:
                log("VIOLATION property=%s replay=%s" % (prop, pth))
            return 1
        log("OK %s %s: %d programs (%d calls) validated in %.1fs" % (prop, tier, total_exec, total_calls, time.time() - t0))
        return 0
    finally:
        shutil.rmtree(work, ignore_errors=True)


def m3_run(prop, work, seed, params, faults, name="m3"):
    """One free workload (optionally with server crashes/restarts), validated by RoutingTrace.
    Returns (calls, rejected sections, trace states, replay records)."""
    mt = os.path.join(work, name + ".ndjson")
    st = os.path.join(work, name + ".json")
    cmd = [os.path.join(BUILD, "drive"), "m3", "-out", mt, "-stats", st, "-seed", str(seed), "-runs", str(params[0]),
           "-goroutines", str(params[1]), "-calls", str(params[2]), "-cancel", "any", "-alphabet", "routing"]
    if faults:
        cmd.append("-faults")
    p = run(cmd, timeout=3000, check=False)
    if p.returncode != 0:
        m = re.search(r"(panic: .*?\n\ngoroutine \d+ \[running\]:\n(github\.com/relab/gorums\.\S+)[^\n]*\n[^\n]*)", p.stdout, re.S)
        if m and "Verif" not in m.group(2):
            # the library itself panicked in one of its own goroutines: that is behaviour of the real code
            return 0, [(0, "ProcessDied", {})], 0, [{"property": prop, "scenario": "m3", "faults": faults, "seed": seed,
                                                     "params": list(params), "rejected_event": "ProcessDied",
                                                     "rejected": {"what": m.group(1)[-2000:]}}]
        raise Infra("m3 driver failed:\n" + p.stdout[-3000:])
    log(("faults " if faults else "") + p.stdout.strip())
    calls = json.load(open(st))["calls"]
    b3, _, ts = validate(mt, "RoutingTrace", FIFO_TCFG, 4, work)
    recs = [{"property": prop, "scenario": "m3", "faults": faults, "seed": seed, "params": list(params),
             "rejected_event": ev, "rejected": rec} for t, ev, rec in b3]
    return calls, b3, ts, recs


def m3_replay(prop, rp, work, default_params):
    params = tuple(rp.get("params") or default_params)
    for i in range(3):
        _, b3, _, _ = m3_run(prop, work, rp["seed"], params, bool(rp.get("faults")), name="re%d" % i)
        if b3:
            return b3
    return []


ROUTING_TIERS = {
    # (3-call programs, shards, m3 (runs, goroutines, calls), design configs)
    "quick": (False, 4, (8, 6, 40), ["q-two-two-crash", "three-two-nocrash"]),
    "thorough": (True, 16, (60, 8, 80), ["t-two-two-b0", "t-stream-two", "t-stream-stream-b1", "t-three-b0", "three-two-nocrash"]),
}
ROUTING_M3F = {"quick": (6, 6, 40), "thorough": (60, 8, 60)}
ROUTING_TFREE = {"quick": {"C05": (4, False), "C18": (4, True)}, "thorough": {"C05": (40, False), "C18": (40, True)}}
ROUTING_OWN = {"C05": "AtMostOneResponse ConfirmOnlyOneWay (Channel.tla); Deliver/Recv/Drop preconditions, QF stamps (Routing.tla)",
               "C18": "NoResidue (Channel.tla, Routing.tla): router tables empty and no per-call goroutine at quiescence"}


def check_routing(prop, tier, seed, replay):
    import check_life
    t0 = time.time()
    work = scratch(prop)
    try:
        build()
        len3, shards, m3, designs = ROUTING_TIERS[tier]
        m3f = ROUTING_M3F[tier]
        progs = os.path.join(work, "progs.ndjson")
        if replay:
            rp = json.load(open(replay))
            if rp.get("life"):
                t1 = os.path.join(work, "re.ndjson")
                check_life.run_life("C18", t1, os.path.join(work, "re.json"), only=rp["scenario"])
                bad, _, _ = check_life.validate_life(t1, work)
            elif rp.get("scenario") == "sys":
                import check_sys
                bad = check_sys.replay(prop, rp, work)
            elif rp.get("scenario") == "m3t":
                import check_chan
                bad = check_chan.free_check(prop, work, rp.get("seed", seed), 6, bool(rp.get("faults")))[1]
            elif rp.get("scenario") == "m3":
                bad = m3_replay(prop, rp, work, m3)
            else:
                with open(progs, "w") as f:
                    f.write(json.dumps(rp["prog"]) + "\n")
                trace = os.path.join(work, "trace.ndjson")
                if str(rp.get("rejected_event", "")).startswith("Gorums:"):
                    import check_sys
                    drive_prog(progs, trace, os.path.join(work, "st.json"), seed, 0, rp.get("sendbuf", 0), "all", 1)
                    bad, _, _ = validate(trace, "GorumsTrace", check_sys.TCFG, 1, work)
                else:
                    drive_prog(progs, trace, os.path.join(work, "st.json"), seed, 0, rp.get("sendbuf", 0), "routing", 1)
                    bad, _, _ = validate(trace, "RoutingTrace", FIFO_TCFG, 1, work)
            if bad:
                log("VIOLATION property=%s replay=%s" % (prop, replay))
                return 1
            log("replay accepted")
            return 0
        # design level
        states = trans = 0
        design = []
        for name in designs:
            out, gen, dist, rc = tlc("ChannelMC", check_life.channel_cfg(name, []), work, workers=16, timeout=3000)
            if not tlc_ok(out):
                raise Infra("design-level check of Channel.tla (%s) failed:\n%s" % (name, out[-3000:]))
            states += dist
            trans += gen
            design.append({"config": name, "states": dist, "transitions": gen})
            log("design level: Channel.tla %s: %d distinct states, invariants hold" % (name, dist))
        gcfg = ("SPECIFICATION Spec\nCONSTANTS\n  Family = \"C18\"\n  Len3 = %s\nINVARIANT Emit\nCHECK_DEADLOCK FALSE\n"
                % ("TRUE" if len3 else "FALSE"))
        gout, ggen, gdist, _ = tlc("FifoGen", gcfg, work, env={"GEN_OUT": progs}, workers=8, timeout=1500)
        if not tlc_ok(gout):
            raise Infra("FifoGen failed:\n" + gout[-3000:])
        reported, allbad, total_exec, total_calls, nontriv, tstates = [], 0, 0, 0, 0, 0
        samples = []
        unconfirmed = []
        sysprog_sections = sysprog_events = 0
        for sb in (0, 2):
            trace = os.path.join(work, "trace-%d.ndjson" % sb)
            stats = os.path.join(work, "stats-%d.json" % sb)
            maxp = 40000 if len3 else 0
            # recorded with every event of every layer: the routing events go to RoutingTrace, the complete
            # trace to GorumsTrace (the composition: ids, issue loops, request flow, handlers, collection, outcomes)
            trace_all = os.path.join(work, "trace-all-%d.ndjson" % sb)
            if len3:
                # thorough tier: 40000 programs go to RoutingTrace; a sample of 4000, recorded with the complete
                # alphabet in a run of its own, goes to GorumsTrace (the complete traces of all would be ~1 GB)
                p0 = drive_prog(progs, trace_all, stats, seed + sb + 7, 4000, sb, "all", 1)
                if p0.returncode != 0:
                    raise Infra("driver failed:\n" + p0.stdout[-3000:])
                import check_sys
                gbad0, gsecs0, gts0 = validate(trace_all, "GorumsTrace", check_sys.TCFG, shards, work)
                tstates += gts0
                sysprog_sections += len(gsecs0)
                sysprog_events += sum(len(x) for x in gsecs0)
                for t, ev, rec in sorted(gbad0, key=lambda b: b[0])[:3]:
                    if ev in ("ProgEnd", "Routers"):
                        continue
                    sec = section(gsecs0, t)
                    path = next_replay_path(prop)
                    json.dump({"property": prop, "prog": json.loads(sec[0])["prog"], "sendbuf": sb, "rejected_event": "Gorums:" + ev,
                               "rejected": rec}, open(path, "w"), indent=1)
                    reported.append(path)
                    allbad += 1
                os.remove(trace_all)
            p = drive_prog(progs, trace_all, stats, seed + sb, maxp, sb, "routing" if len3 else "all", 1)
            if p.returncode != 0:
                raise Infra("driver failed:\n" + p.stdout[-3000:])
            st = json.load(open(stats))
            log("sendbuf=%d: %s" % (sb, p.stdout.strip()))
            with open(trace, "w") as fo:
                for line in open(trace_all):
                    m = RE_EV.search(line[:400]) or RE_EV.search(line)
                    if m and (m.group(1) in ROUTING_ALPHABET or m.group(1) == "Prog"):
                        fo.write(line)
            bad, secs, ts = validate(trace, "RoutingTrace", FIFO_TCFG, shards, work)
            tstates += ts
            if not len3:
                import check_sys
                gbad, gsecs, gts = validate(trace_all, "GorumsTrace", check_sys.TCFG, shards, work)
                tstates += gts
                sysprog_sections += len(gsecs)
                sysprog_events += sum(len(x) for x in gsecs)
                bad = bad + [(t, "Gorums:" + ev, rec) for t, ev, rec in gbad if ev not in ("ProgEnd", "Routers")]
            os.remove(trace_all)
            total_exec += st["executed"]
            total_calls += st["calls"]
            nontriv += st["distinct_nontrivial"]
            samples = samples or st["samples"]
            allbad += len({t for t, _, _ in bad})
            for t, ev, rec in sorted(bad, key=lambda b: b[0])[:3]:
                sec = section(secs, t)
                if ev in ("Quiescent", "ProgEnd", "Routers"):
                    one = os.path.join(work, "one.ndjson")
                    with open(one, "w") as f:
                        f.write(json.dumps(json.loads(sec[0])["prog"]) + "\n")
                    hits = 0
                    for _ in range(2):
                        t1 = os.path.join(work, "one-trace.ndjson")
                        drive_prog(one, t1, os.path.join(work, "one-stats.json"), seed, 0, sb, "routing", 1)
                        b1, _, _ = validate(t1, "RoutingTrace", FIFO_TCFG, 1, work)
                        hits += 1 if b1 else 0
                    if hits == 0:
                        # not a verdict; go on with the other phases (they may decide) and report it at the end
                        unconfirmed.append("timing-dependent rejection of program %d (%s) did not reproduce" % (t, ev))
                        continue
                if len(reported) < 3:
                    path = next_replay_path(prop)
                    json.dump({"property": prop, "prog": json.loads(sec[0])["prog"], "sendbuf": sb, "rejected_event": ev,
                               "rejected": rec, "trace": [json.loads(x) for x in sec]}, open(path, "w"), indent=1)
                    reported.append(path)
        # C18: scripted scenarios (a send that fails after the health check, a context ending during the write,
        # a stream replaced behind the receiver): no per-call goroutine and no router may be left
        nscen = 0
        if prop == "C18":
            lt = os.path.join(work, "life.ndjson")
            log(check_life.run_life("C18", lt, os.path.join(work, "life.json")))
            lbad, _, llines = check_life.validate_life(lt, work)
            nscen = sum(1 for x in llines if '"ev":"Scen"' in x)
            for hdr, rec in lbad:
                if hdr.get("infeasible"):
                    raise Infra("infeasible scenario %s:%s %s" % (hdr.get("name"), hdr.get("kind"), hdr.get("infeasible")))
                only = "%s:%s" % (hdr.get("name"), hdr.get("kind"))
                hits = 0
                for _ in range(2):
                    t1 = os.path.join(work, "re.ndjson")
                    check_life.run_life("C18", t1, os.path.join(work, "re.json"), only=only)
                    b1, _, _ = check_life.validate_life(t1, work)
                    hits += 1 if b1 else 0
                if hits == 0:
                    log("UNCONFIRMED (not a verdict): rejection of scenario %s did not reproduce" % only)
                    continue
                if len(reported) < 3:
                    path = next_replay_path(prop)
                    json.dump({"property": prop, "scenario": only, "life": True, "rejected": rec}, open(path, "w"), indent=1)
                    reported.append(path)
                allbad += 1
        # free workloads, without and with server crashes/restarts
        m3calls, b3, ts, recs = m3_run(prop, work, seed, m3, False)
        fcalls, bf, tsf, recsf = m3_run(prop, work, seed, m3f, True, name="m3f")
        tstates += ts + tsf
        for rec in (recs + recsf)[:3]:
            path = next_replay_path(prop)
            json.dump(rec, open(path, "w"), indent=1)
            reported.append(path)
        allbad += len(b3) + len(bf)
        m3calls += fcalls
        # small free workloads recorded with every event: each node's transport trace against Channel.tla,
        # action by action (ChannelTrace.tla)
        import check_chan
        fruns, ffaults = ROUTING_TFREE[tier][prop]
        facc, fconf, funconf, fstates, fev, tcalls = check_chan.free_check(prop, work, seed, fruns, ffaults)
        tstates += fstates
        for hdr, line, why, clines in fconf[:3]:
            path = next_replay_path(prop)
            json.dump({"property": prop, "scenario": "m3t", "chan": True, "faults": ffaults, "seed": seed, "line": line,
                       "reason": why, "trace": clines[max(0, line - 40):line + 1]}, open(path, "w"), indent=1)
            reported.append(path)
        allbad += len(fconf)
        # C05: the same kind of workload recorded with every event of every layer and validated against the
        # composition Gorums.tla (ids manager-wide unique, also across 2^32 calls; the reply chain end to end)
        syscov = None
        if prop == "C05":
            import check_sys
            sysdesign = check_sys.design_level(work, tier)
            log("design level: Gorums.tla (%s): %d distinct states, invariants hold" % (sysdesign["config"], sysdesign["states"]))
            syscov, sysbad = check_sys.phase(prop, tier, seed, work, reported)
            syscov["design_level"] = sysdesign
            allbad += sysbad
        cov = {"states": states, "transitions": trans, "traces_validated_against_impl": total_exec - allbad + m3[0] + m3f[0],
               "evaluations": total_calls + m3calls, "distinct_nontrivial": nontriv,
               "rule": "programs = the C18 family of FifoGen.tla: every call variant (16 methods x send-waiting) x handler "
                       "pattern {all reply, straggler, two stragglers, errors+reply, all errors, all slow} x {no cancel, "
                       "cancel once issued}, alone and followed by a second call%s, send buffer 0 and 2; non-trivial = not "
                       "all handlers answer at once; plus %d calls of free workloads (6-8 goroutines, three overlapping "
                       "configurations, late replies, errors, cancellations at arbitrary instants; half of the runs with "
                       "servers crashing and restarting at random)" %
                       (" and ordered pairs" if len3 else "", m3calls),
               "samples": samples, "exhaustive": not len3, "design_level": design, "programs": total_exec,
               "calls": total_calls, "m3_calls": m3calls, "trace_states": tstates, "decides": ROUTING_OWN[prop],
               "lifecycle_scenarios": nscen,
               "system_level_programs": {"module": "GorumsTrace", "sections": sysprog_sections, "events": sysprog_events},
               "transport_level_free_workloads": {"node_traces": facc, "events": fev, "calls": tcalls,
                                                  "unconfirmed": funconf, "faults": ffaults}}
        if syscov:
            cov["system_level_free_workloads"] = syscov
        write_evidence(prop, tier, seed, "model_checking", cov, time.time() - t0, allbad,
                       ["the router count is logged inside the router mutex; Route is logged before the hand-over to the "
                        "call's channel, so it always precedes the call's CallRecv",
                        "ProgEnd (all invocations and handlers have returned; bounded wait for empty tables) is "
                        "timing-dependent and re-run before being reported"])
        if reported:
            for pth in reported:
                log("VIOLATION property=%s replay=%s" % (prop, pth))
            return 1
        for u in unconfirmed:
            log("UNCONFIRMED (not a verdict): " + u)
        log("OK %s %s: %d programs + %d free calls validated in %.1fs" % (prop, tier, total_exec, m3calls, time.time() - t0))
        return 0
    finally:
        shutil.rmtree(work, ignore_errors=True)
