"""Shared helpers of the /verif checks: building the harness from /repo's
working tree, running TLC in scratch directories, known findings, evidence."""
import json
import os
import re
import shutil
import subprocess
import sys
import tempfile
import time

VERIF = os.path.dirname(os.path.dirname(os.path.abspath(__file__)))
REPO = os.environ.get("VERIF_REPO", "/repo")
BUILD = os.path.join(VERIF, ".build")
SPECS = os.path.join(VERIF, "specs")
HARNESS = os.path.join(VERIF, "harness")
SCRATCH_ROOT = os.path.join(VERIF, ".scratch")
TLA_CP = "/opt/veriftools/tla/tla2tools.jar:/opt/veriftools/tla/CommunityModules-deps.jar"

GOENV = dict(os.environ, GOFLAGS="-mod=mod", GOPROXY="off", GOSUMDB="off", GOTOOLCHAIN="local")


class Infra(Exception):
    """Infrastructure failure: the check exits 2, never reports a violation."""


_T0 = time.time()


def log(*a):
    if os.environ.get("VERIF_TIMES"):
        print("[%6.1fs]" % (time.time() - _T0), *a, flush=True)
    else:
        print(*a, flush=True)


def run(cmd, cwd=None, env=None, timeout=None, check=True):
    p = subprocess.run(cmd, cwd=cwd, env=env or GOENV, timeout=timeout,
                       stdout=subprocess.PIPE, stderr=subprocess.STDOUT, text=True)
    if check and p.returncode != 0:
        raise Infra("command failed (%d): %s\n%s" % (p.returncode, " ".join(cmd), p.stdout[-4000:]))
    return p


def scratch(tag):
    os.makedirs(SCRATCH_ROOT, exist_ok=True)
    return tempfile.mkdtemp(prefix=tag + "-", dir=SCRATCH_ROOT)


def build(targets=("drive",)):
    """Rebuild, from /repo's current working tree, the plugin, the Puppet stubs
    and the harness binaries (build tag verif)."""
    t0 = time.time()
    os.makedirs(BUILD, exist_ok=True)
    run(["go", "build", "-o", os.path.join(BUILD, "protoc-gen-gorums"), "./cmd/protoc-gen-gorums"], cwd=REPO)
    if not os.path.exists(os.path.join(BUILD, "protoc-gen-go")):
        run(["go", "build", "-o", os.path.join(BUILD, "protoc-gen-go"),
             "google.golang.org/protobuf/cmd/protoc-gen-go"], cwd=HARNESS)
    run(["go", "build", "-o", os.path.join(BUILD, "genpuppet"), "./cmd/genpuppet"], cwd=HARNESS)
    run([os.path.join(BUILD, "genpuppet"),
         "-protoc-gen-go", os.path.join(BUILD, "protoc-gen-go"),
         "-protoc-gen-gorums", os.path.join(BUILD, "protoc-gen-gorums"),
         "-out", os.path.join(HARNESS, "gen", "puppet")], cwd=HARNESS)
    for t in targets:
        run(["go", "build", "-tags", "verif", "-o", os.path.join(BUILD, t), "./cmd/" + t], cwd=HARNESS)
    return time.time() - t0


RE_STATES = re.compile(r"(\d+) states generated, (\d+) distinct states found")


def tlc(module, cfg_text, workdir, env=None, workers=1, timeout=600, extra=(), simulate=None):
    """Run TLC on specs/<module>.tla with the given configuration text in a
    scratch copy of specs/.  Returns (stdout, generated, distinct)."""
    sdir = os.path.join(workdir, "specs-%d" % (time.time_ns() % 10**9))
    shutil.copytree(SPECS, sdir, ignore=shutil.ignore_patterns("cfg", "*.cfg"))
    cfg = os.path.join(sdir, module + "_run.cfg")
    with open(cfg, "w") as f:
        f.write(cfg_text)
    cmd = ["timeout", str(timeout), "java", "-XX:+UseParallelGC", "-Xss64m", "-cp", TLA_CP, "tlc2.TLC",
           "-noGenerateSpecTE", "-workers", str(workers), "-metadir", os.path.join(sdir, "meta"),
           "-config", cfg]
    cmd += list(extra)
    cmd.append(os.path.join(sdir, module + ".tla"))
    e = dict(os.environ)
    if env:
        e.update(env)
    p = subprocess.run(cmd, cwd=sdir, env=e, stdout=subprocess.PIPE, stderr=subprocess.STDOUT, text=True)
    out = p.stdout
    shutil.rmtree(sdir, ignore_errors=True)
    if p.returncode == 124:
        raise Infra("TLC timeout on %s" % module)
    m = RE_STATES.findall(out)
    gen, dist = (int(m[-1][0]), int(m[-1][1])) if m else (0, 0)
    return out, gen, dist, p.returncode


def tlc_ok(out):
    return "Model checking completed. No error has been found." in out


def tla_set(items):
    return "{" + ", ".join('"%s"' % i for i in sorted(items)) + "}"


# --------------------------------------------------------------------------
# known findings
# --------------------------------------------------------------------------
RE_OPEN = re.compile(r"^open:\s+property=(\S+)\s+key=(\S+)\s+module=(\S+)\s+(.*)$")
RE_FIXED = re.compile(r"^fixed:\s+property=(\S+)\s+(\S+)\s+(.*)$")


def known_findings():
    path = os.path.join(VERIF, "KNOWN_FINDINGS.txt")
    out = []
    if os.path.exists(path):
        for line in open(path):
            line = line.strip()
            m = RE_OPEN.match(line)
            if m:
                out.append({"status": "open", "property": m.group(1), "key": m.group(2), "module": m.group(3),
                            "what": m.group(4)})
            m = RE_FIXED.match(line)
            if m:
                out.append({"status": "fixed", "property": m.group(1), "commit": m.group(2), "what": m.group(3)})
    return out


def open_findings(module=None, prop=None):
    return [k for k in known_findings() if k.get("status") == "open"
            and (module is None or k.get("module") == module)
            and (prop is None or k.get("property") == prop)]


# --------------------------------------------------------------------------
# evidence and verdicts
# --------------------------------------------------------------------------
def write_evidence(prop, tier, seed, level, coverage, wall, violations, assumptions):
    os.makedirs(os.path.join(VERIF, "evidence"), exist_ok=True)
    ev = {"property_id": prop, "tier": tier, "seed": seed, "level": level, "coverage": coverage,
          "assumptions": assumptions, "wall_s": round(wall, 2), "violations": violations}
    with open(os.path.join(VERIF, "evidence", prop + ".json"), "w") as f:
        json.dump(ev, f, indent=1, sort_keys=True)
        f.write("\n")


def next_replay_path(prop):
    d = os.path.join(VERIF, "replays")
    os.makedirs(d, exist_ok=True)
    i = 1
    while os.path.exists(os.path.join(d, "%s-%d.json" % (prop, i))):
        i += 1
    return os.path.join(d, "%s-%d.json" % (prop, i))


def seed_tier(argv):
    tier = argv[2] if len(argv) > 2 and not argv[2].startswith("--") else os.environ.get("VERIF_TIER", "quick")
    seed = int(os.environ.get("VERIF_SEED", "1"))
    replay = None
    if "--replay" in argv:
        replay = argv[argv.index("--replay") + 1]
    return tier, seed, replay
