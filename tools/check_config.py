"""C14: configuration algebra.  TLC explores Config.tla exhaustively up to
Depth operations (invariants at design level) and writes every operation
sequence; the harness executes them on fresh managers (generated Manager /
Configuration wrappers, WithNoConnect) logging the projected abstract state;
TLC validates every logged operation against Outcomes(op) (ConfigTrace.tla)."""
import json
import os
import re
import shutil
import time
from concurrent.futures import ThreadPoolExecutor

from vlib import BUILD, Infra, build, log, next_replay_path, open_findings, run, scratch, tlc, tlc_ok, write_evidence

TIERS = {"quick": (2, 2, 0, 4), "thorough": (3, 2, 150000, 16)}  # Depth, MaxList, max paths, shards
RE_BAD = re.compile(r'<<"BAD", (\d+), (\d+), "(\w+)">>')
TCFG = "SPECIFICATION TSpec\nINVARIANT TraceInv\nPOSTCONDITION Accepted\nCHECK_DEADLOCK FALSE\n"


def split(trace, shards, work):
    paths, cur = [], None
    for line in open(trace):
        if line.startswith('{"ev":"Path"'):
            cur = []
            paths.append(cur)
        cur.append(line)
    shards = max(1, min(shards, len(paths)))
    files = []
    for i in range(shards):
        p = os.path.join(work, "cshard-%d.ndjson" % i)
        with open(p, "w") as f:
            for x in paths[i::shards]:
                f.writelines(x)
        files.append(p)
    return files, paths


def validate(trace, shards, work):
    files, paths = split(trace, shards, work)

    def one(p):
        out, gen, dist, rc = tlc("ConfigTrace", TCFG, work, env={"TRACE": p}, workers=1, timeout=3000)
        return p, out, gen

    bad, states = [], 0
    with ThreadPoolExecutor(max_workers=len(files)) as ex:
        for p, out, gen in ex.map(one, files):
            if '<<"DONE"' not in out or "is violated" in out:
                raise Infra("trace validation did not finish cleanly:\n" + out[-3000:])
            lines = open(p).read().splitlines()
            for m in RE_BAD.finditer(out):
                bad.append(json.loads(lines[int(m.group(1)) - 1]))
            states += gen
            os.remove(p)
    return bad, paths, states


def path_ops(paths, rec):
    """The operations of the path of rec, up to and including rec."""
    for x in paths:
        if len(x) > 1 and json.loads(x[1]).get("p") == rec["p"]:
            ops = []
            for line in x[1:]:
                r = json.loads(line)
                ops.append(r["op"])
                if r == rec:
                    break
            return ops
    return [rec["op"]]


def check(prop, tier, seed, replay):
    t0 = time.time()
    work = scratch(prop)
    try:
        build()
        depth, maxlist, maxp, shards = TIERS[tier]
        paths_file = os.path.join(work, "paths.ndjson")
        gdist = ggen = 0
        if replay:
            rp = json.load(open(replay))
            with open(paths_file, "w") as f:
                f.write(json.dumps(rp["ops"]) + "\n")
            shards = 1
        else:
            cfg = ("SPECIFICATION GSpec\nCONSTANTS\n  Depth = %d\n  MaxList = %d\n"
                   "INVARIANTS Emit NonEmpty SubsetOfPool OneAddrPerId GeneratedIdsCarryTheirAddress\n"
                   "PROPERTIES OperandsUnchanged PoolOnlyGrows\nCHECK_DEADLOCK FALSE\n" % (depth, maxlist))
            gout, ggen, gdist, _ = tlc("ConfigGen", cfg, work, env={"GEN_OUT": paths_file}, workers=16, timeout=1500)
            if not tlc_ok(gout):
                raise Infra("ConfigGen failed (model level):\n" + gout[-3000:])
            log("design level: Config.tla depth %d: %d states generated, %d distinct, invariants hold" %
                (depth, ggen, gdist))
        trace = os.path.join(work, "trace.ndjson")
        p = run([os.path.join(BUILD, "drive"), "config", "-paths", paths_file, "-out", trace, "-seed", str(seed),
                 "-max", str(maxp)], check=False, timeout=3000)
        if p.returncode != 0:
            raise Infra("driver failed:\n" + p.stdout[-2000:])
        log(p.stdout.strip())
        m = re.search(r"executed (\d+) of (\d+) paths, (\d+) operations", p.stdout)
        executed, total, nops = int(m.group(1)), int(m.group(2)), int(m.group(3))
        bad, paths, tstates = validate(trace, shards, work)
        if replay:
            if bad:
                log("VIOLATION property=%s replay=%s" % (prop, replay))
                return 1
            log("replay accepted")
            return 0
        reported = []
        for rec in bad[:3]:
            path = next_replay_path(prop)
            json.dump({"property": prop, "ops": path_ops(paths, rec), "rejected": rec}, open(path, "w"), indent=1)
            reported.append(path)
        nontriv = sum(1 for x in paths if len(x) >= 3)
        samples = [json.loads(l) for l in paths[0][1:3]] if paths else []
        cov = {"states": gdist, "transitions": ggen, "traces_validated_against_impl": executed - len({b["p"] for b in bad}),
               "evaluations": nops, "distinct_nontrivial": nontriv,
               "rule": "operation sequences = every path of Config.tla up to depth %d over the op alphabet of ConfigGen.tla "
                       "(5 address spellings incl. an alternative spelling and an FNV-colliding pair, explicit ids {1,2}), "
                       "de-duplicated; non-trivial = paths with at least two executed operations" % depth,
               "samples": samples, "exhaustive": executed == total, "paths_generated": total, "paths_executed": executed,
               "operations": nops, "trace_states": tstates}
        write_evidence(prop, tier, seed, "model_checking", cov, time.time() - t0, len(bad),
                       ["no network: managers use WithNoConnect; node identity and connection sharing are judged by "
                        "pointer identity with mgr.Node(id)",
                        "abstract ids are an order-preserving renaming of the real FNV-1a ids (checked at start-up)"])
        if reported:
            for pth in reported:
                log("VIOLATION property=%s replay=%s" % (prop, pth))
            return 1
        log("OK %s %s: %d paths / %d operations validated in %.1fs" % (prop, tier, executed, nops, time.time() - t0))
        return 0
    finally:
        shutil.rmtree(work, ignore_errors=True)
