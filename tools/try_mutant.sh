#!/bin/bash
# try_mutant.sh <worktree> <property> : confirm a sub-agent's change, then run the property's quick check on it
WT=$1; PROP=$2
export GOFLAGS=-mod=mod GOPROXY=off GOSUMDB=off GOTOOLCHAIN=local
cd $WT || exit 2
git stash -q 2>/dev/null; git checkout -q -- . 2>/dev/null
echo "== patch applies to worktree:"; git apply --check MUTANT/patch.diff && echo yes
echo "== patch applies to /repo:"; git -C /repo apply --check $WT/MUTANT/patch.diff && echo yes
git -C /repo apply $WT/MUTANT/patch.diff || exit 2
(cd /repo && go build ./... && go vet -tags verif . >/dev/null 2>&1; echo "build rc=$?")
echo "== check $PROP quick on the changed tree:"
(cd /verif && VERIF_TIMES=1 timeout 1500 bin/check $PROP quick 2>&1 | grep -E "VIOLATION|^\[.*\] OK|INFRA" | head -4)
git -C /repo checkout -- .
rm -f /verif/replays/*.json
