"""Transport-level trace validation: every recorded event of one node's transport (hooks in
channel.go, the call files, server.go; the puppet's handler events; the driver's environment
events) is checked, action by action, against Channel.tla (ChannelTrace.tla).  Used by the
lifecycle checks on the traces of their scripted scenarios, and stand-alone:

    python3 tools/check_chan.py <property> [scenario:kind]      (runs the scenarios, validates them)
"""
import json
import os
import re
import shutil
import sys
import time
from concurrent.futures import ThreadPoolExecutor

sys.path.insert(0, os.path.dirname(__file__))
from vlib import BUILD, Infra, build, log, run, scratch, tlc  # noqa: E402

# events consumed by ChannelTrace.tla (everything else - gates, call-level bookkeeping - is dropped)
CLIENT = {"RegisterRouter", "HandOffWait", "HandOff", "Dequeue", "ClosedReply", "CtxReply", "CallRecv", "CallConfirm",
          "CallEnd", "DeleteRouter", "Route", "CancelPending", "SndConnect", "Dial", "FirstStream", "ReceiverStart",
          "ReconLockBusy", "ReconLocked", "ReconSeeUp", "ReconNewStream", "ReconGiveUp", "ReconSleep", "ReconTimer",
          "ReconWoken", "ReconParentDone", "BrokenReply", "CtxSkip", "SndRLocked", "WatcherCancel", "SendDone",
          "SndRUnlock", "Confirm", "ErrReply", "Drain", "SenderExit", "RecvWait", "RecvStreamReplaced", "RecvOk",
          "RecvErr", "ReceiverExit", "NodeCancel", "NodeCancelBegin"}
PUPPET = {"HStart", "HRelease", "HReturn", "HReply", "HFail", "EnvStop", "EnvStopped", "EnvStart"}
SERVER = set()
DRIVER = {"CtxEnd"}
KEEP_FIELDS = {"ev", "msg", "node", "who", "ok", "err", "found", "why", "streaming", "routers", "out", "seq", "foreign", "multi",
               "own"}

TCFG = ("SPECIFICATION TSpec\nCONSTANTS\n  Reqs <- TReqs\n  Kind <- TKind\n  SendBuf <- TSendBuf\n  MaxEpoch <- TMaxEpoch\n"
        "  CapOf <- TCapOf\n  Multi <- TMulti\n  MaxCrash = 1000\n  CanCancel <- TCancel\n  WithClose = TRUE\n  ChanCap <- TChanCap\n  MaxItems = 1000\n"
        "  Window = 100000\n  Foreign = FALSE\n  Abandons = TRUE\n  Devs = {}\nINVARIANTS NotDone TraceInv\nCHECK_DEADLOCK FALSE\n")
RE_STEP = re.compile(r'<<"STEP", (\d+)>>')


def sections(path):
    """Split a `drive life` output (all events) into scenarios: [(header, [events])]."""
    out = []
    for line in open(path):
        e = json.loads(line)
        if e["ev"] == "Scen":
            out.append((e, []))
        elif out:
            out[-1][1].append(e)
    return out


def project(events, node):
    """The trace of one node: header line + the events ChannelTrace.tla consumes, or None (with a reason)."""
    info = next((e for e in events if e["ev"] == "EnvInfo"), None)
    if info is None:
        return None, "no EnvInfo event"
    nnodes = info.get("nodes", 1)
    if any(e["ev"] == "CallStart" and e.get("mgr", 0) not in (0, None) for e in events):
        return None, "two managers"
    tok2msg = {}
    kindof = {}
    sizeof = {}
    for e in events:
        if e["ev"] == "CallStart":
            tok2msg[e["tok"]] = e["msg"]
            kindof[e["msg"]] = e.get("kind", "")
            sizeof[e["msg"]] = e.get("size", 1)
    reqs, streaming, hasrouter = [], {}, {}
    for e in events:
        if e["ev"] in ("RegisterRouter", "HandOffWait") and e.get("node") == node:
            m = e["msg"]
            if m not in reqs:
                reqs.append(m)
            if e["ev"] == "RegisterRouter":
                hasrouter[m] = True
                streaming[m] = bool(e.get("streaming"))
    if not reqs:
        return None, "no request"
    # a streaming call over several nodes: its reply channel (one slot per node) is shared with the other nodes
    smulti = {m for m in reqs if streaming.get(m) and sizeof.get(m, 1) > 1}
    kinds = []
    for m in reqs:
        if streaming.get(m):
            kinds.append("stream")
        elif kindof.get(m) in ("ucast", "mcast"):
            kinds.append("sw" if hasrouter.get(m) else "nsw")
        else:
            kinds.append("two")
    lines = []
    nstreams = 0
    ownmark = set()
    for e in events:
        ev = e["ev"]
        if ev in CLIENT and (e.get("node") == node or (ev in ("CallEnd", "CallConfirm") and e.get("node") == 0)):
            if ev == "CallConfirm":
                # (a multicast over several nodes logs one confirmation per node without naming it)
                e = dict(e, multi=sizeof.get(e.get("msg"), 1) > 1)
            if ev == "CallRecv":
                e = dict(e, foreign=False)
        elif ev == "Route" and e.get("msg") in smulti and e.get("found"):
            # another node's channel hands a response to the shared reply channel
            k = (e.get("node"), e["msg"])
            own = k in ownmark and e.get("why") == "resp"
            e = {"ev": "FRoute", "msg": e["msg"], "node": node, "seq": e.get("seq", 0), "own": own,
                 "err": True if e.get("why") == "down" else bool(e.get("err"))}
            ev = "FRoute"
        elif ev in ("ClosedReply", "CtxReply") and e.get("msg") in smulti:
            ownmark.add((e.get("node"), e["msg"]))
            continue
        elif ev == "CallRecv" and e.get("msg") in smulti:
            e = dict(e, foreign=True, node=node)
        elif ev in PUPPET and e.get("node") == node:
            if ev in ("HStart", "HRelease", "HReturn", "HReply", "HFail"):
                m = tok2msg.get(e.get("tok"))
                if m is None:
                    continue
                e = dict(e, msg=m)
        elif ev in SERVER:
            pass
        elif ev in DRIVER:
            m = tok2msg.get(e.get("tok"))
            if m is None or m not in reqs:
                continue
            e = dict(e, msg=m)
        else:
            continue
        if ev in ("FirstStream", "ReconNewStream") and e.get("ok"):
            nstreams += 1
        if ev in ("CallRecv", "CallConfirm", "CallEnd", "DeleteRouter", "Route", "RegisterRouter", "HandOffWait", "HandOff",
                  "Dequeue", "HStart", "HRelease", "HReturn", "HReply", "HFail") and e.get("msg") not in reqs:
            continue
        if ev == "CallEnd" and kindof.get(e["msg"]) == "rpc":
            e = dict(e, out="ctx" if e.get("out") == "ctx" else "reply")
        rec = {k: v for k, v in e.items() if k in KEEP_FIELDS}
        if ev == "Route":
            for k, d in (("err", False), ("found", False), ("why", "resp"), ("streaming", False)):
                rec.setdefault(k, d)
        lines.append(rec)
    started = False
    for x in lines:
        if x["ev"] == "EnvStart":
            started = True
        if x["ev"] in ("Dial", "FirstStream"):
            break
    if not started:
        # the node's server was not running when the manager was created
        lines = [{"ev": "EnvStop", "msg": 0, "node": node}, {"ev": "EnvStopped", "msg": 0, "node": node}] + lines
    hdr = {"ev": "Hdr", "reqs": reqs, "kinds": kinds, "sendbuf": int(info.get("sendbuf", 0)), "maxepoch": nstreams + 2,
           "chancap": 1, "node": node, "caps": [sizeof.get(m, 1) if streaming.get(m) else 1 for m in reqs],
           "multi": [m in smulti for m in reqs]}
    return [hdr] + lines, ""


def validate_one(lines, work, name, timeout=600, undecided_ok=False):
    path = os.path.join(work, name + ".ndjson")
    with open(path, "w") as f:
        for x in lines:
            f.write(json.dumps(x, separators=(",", ":")) + "\n")
    try:
        out, gen, dist, rc = tlc("ChannelTrace", TCFG, work, env={"TRACE": path}, workers=1, timeout=timeout)
    except Infra:
        if undecided_ok:
            if os.environ.get("VERIF_KEEP"):
                shutil.copy(path, "/tmp/chan-undecided-%s.ndjson" % name)
            return None, 0, 0, "not decided within %d s" % timeout
        raise
    steps = [int(x) for x in RE_STEP.findall(out)]
    hwm = max(steps) if steps else 1
    if "Invariant NotDone is violated" in out:
        return True, len(lines), gen, ""
    if "Invariant TraceInv is violated" in out:
        return False, hwm, gen, "a safety property of Channel.tla is violated on the matching behaviour"
    if "Model checking completed. No error has been found." in out:
        # exhausted: the first line nobody could consume is hwm + 1 (lines are 1-based; line 1 is the header)
        rej = lines[hwm] if hwm < len(lines) else {}
        return False, hwm + 1, gen, "no action of Channel.tla matches line %d: %s" % (hwm + 1, json.dumps(rej))
    if "Error: " in out and ("evaluat" in out or "Attempted to" in out):
        # TLC could not evaluate an action on this data (a field of an unexpected shape): the line is not matched
        rej = lines[hwm] if hwm < len(lines) else {}
        m = re.search(r"Error: (.*)", out)
        return False, hwm + 1, gen, "evaluation error near line %d (%s): %s" % (hwm + 1, m.group(1)[:200] if m else "", json.dumps(rej))
    raise Infra("ChannelTrace did not finish for %s:\n%s" % (name, out[-3000:]))


def validate_file(allev_path, work, par=8):
    """Validate every single-node scenario of a `drive life` output recorded with all events.
    Returns (accepted, rejected [(header, line, reason, lines)], skipped [(header, reason)], states)."""
    jobs, skipped = [], []
    for i, (hdr, events) in enumerate(sections(allev_path)):
        if hdr.get("infeasible"):
            skipped.append((hdr, "infeasible: " + hdr["infeasible"]))
            continue
        info = next((e for e in events if e["ev"] == "EnvInfo"), {})
        for node in range(1, int(info.get("nodes", 1)) + 1):
            lines, why = project(events, node)
            if lines is None:
                if why != "no request":
                    skipped.append((hdr, "node %d: %s" % (node, why)))
                continue
            jobs.append((i * 10 + node, dict(hdr, raw=events, node=node), lines))
    acc, rej, states = 0, [], 0

    def one(j):
        i, hdr, lines = j
        # a trace TLC cannot decide within the budget (on the unchanged tree a scenario trace takes 1-2 s; a tree
        # that departs from the model can make the search for a placement of the silent steps explode) is not a
        # verdict: the other oracles of the check go on, and the check ends with exit 2 if none of them decides
        ok, line, gen, why = validate_one(lines, work, "s%d" % i, timeout=300, undecided_ok=True)
        return hdr, lines, ok, line, gen, why

    with ThreadPoolExecutor(max_workers=par) as ex:
        for hdr, lines, ok, line, gen, why in ex.map(one, jobs):
            states += gen
            if ok is None:
                skipped.append((hdr, "UNDECIDED: " + why))
            elif ok:
                acc += 1
            else:
                rej.append((hdr, line, why, lines))
    return acc, rej, skipped, states


def free_sections(path):
    """Split a `drive m3 -alphabet all` output into runs: [(header, [events])]; the real send-buffer size is
    in the run's header."""
    out = []
    for line in open(path):
        e = json.loads(line)
        if e["ev"] == "Prog":
            out.append((e, []))
        elif out:
            if e["ev"] == "EnvInfo":
                e = dict(e, sendbuf=out[-1][0].get("sendbuf", 0))
            out[-1][1].append(e)
    return out


def validate_free(path, work, par=8):
    """Validate every node's transport trace of every run of a free workload.
    Returns (accepted, rejected [(header, line, reason, lines)], skipped, states, events)."""
    jobs, skipped = [], []
    for i, (hdr, events) in enumerate(free_sections(path)):
        info = next((e for e in events if e["ev"] == "EnvInfo"), {})
        for node in range(1, int(info.get("nodes", 1)) + 1):
            lines, why = project(events, node)
            if lines is None:
                if why != "no request":
                    skipped.append((hdr, "node %d: %s" % (node, why)))
                continue
            jobs.append((i * 10 + node, dict(hdr, name="free-%s" % hdr.get("t"), kind="m3", node=node), lines))
    acc, rej, states, nev = 0, [], 0, 0

    def one(j):
        i, hdr, lines = j
        ok, line, gen, why = validate_one(lines, work, "f%d" % i, timeout=150, undecided_ok=True)
        return hdr, lines, ok, line, gen, why

    with ThreadPoolExecutor(max_workers=par) as ex:
        for hdr, lines, ok, line, gen, why in ex.map(one, jobs):
            states += gen
            if ok is None:
                # the search for a placement of the silent steps did not finish: no verdict for this trace
                skipped.append((hdr, "node %s: %s" % (hdr.get("node"), why)))
                continue
            nev += len(lines)
            if ok:
                acc += 1
            else:
                rej.append((hdr, line, why, lines))
    return acc, rej, skipped, states, nev


def free_check(prop, work, seed, runs, faults, cancel="any", goroutines=4, calls=8, name="m3t"):
    """Free workloads (nothing scheduled) recorded with every event; each node's transport trace of each run is
    validated against Channel.tla action by action.  A free run cannot be repeated exactly, so a rejection counts
    only if a rejection of the same event kind shows up again in one of two further batches (other seeds);
    otherwise it is reported as unconfirmed.  Returns (accepted, confirmed [(hdr, line, why, lines)], unconfirmed,
    states, events, calls)."""
    def batch(sd, n, tag):
        out = os.path.join(work, "%s-%s.ndjson" % (name, tag))
        st = os.path.join(work, "%s-%s.json" % (name, tag))
        cmd = [os.path.join(BUILD, "drive"), "m3", "-out", out, "-stats", st, "-seed", str(sd), "-runs", str(n),
               "-goroutines", str(goroutines), "-calls", str(calls), "-cancel", cancel, "-alphabet", "all"]
        if faults:
            cmd.append("-faults")
        p = run(cmd, timeout=3000, check=False)
        if p.returncode != 0:
            raise Infra("m3 driver failed:\n" + p.stdout[-3000:])
        r = validate_free(out, work, par=12)
        os.remove(out)
        return r + (json.load(open(st))["calls"],)

    def kind(why):
        m = re.search(r'"ev": "(\w+)"', why)
        return m.group(1) if m else why[:40]

    acc, rej, skipped, states, nev, ncalls = batch(seed, runs, "a")
    confirmed, unconfirmed = [], 0
    if rej:
        again = []
        for i in (1, 2):
            again += batch(seed + 1000 * i, max(runs, 6), "r%d" % i)[1]
        kinds = {kind(w) for _, _, w, _ in again}
        for r in rej:
            if '"foreign": true' in r[2] or '"ev": "FRoute"' in r[2]:
                # known imprecision of the projection (DESIGN.md 10, item 15): items of OTHER nodes in the shared reply
                # channel of a multi-node stream call are not ordered by this node's trace; such a rejection says
                # nothing about the tree
                unconfirmed += 1
                log("UNCONFIRMED (not a verdict): transport-level rejection in a free workload at a foreign item of a "
                    "multi-node stream call (run %s node %s line %d)" % (r[0].get("t"), r[0].get("node"), r[1]))
            elif kind(r[2]) in kinds and len([a for a in again if kind(a[2]) == kind(r[2])]) >= 2:
                confirmed.append(r)
            else:
                unconfirmed += 1
                log("UNCONFIRMED (not a verdict): transport-level rejection in a free workload (run %s node %s line %d: %s) "
                    "did not show up again" % (r[0].get("t"), r[0].get("node"), r[1], r[2]))
    log("transport level, free workloads%s: %d node traces (%d events, %d calls) accepted, %d rejected (%d confirmed)" %
        (" with faults" if faults else "", acc, nev, ncalls, len(rej), len(confirmed)))
    return acc, confirmed, unconfirmed, states, nev, ncalls


def main_free(argv):
    """python3 tools/check_chan.py free <seed> <runs> [drive m3 flags...]"""
    seed, runs = argv[0], argv[1]
    build()
    work = scratch("chanfree")
    try:
        t0 = time.time()
        out = os.path.join(work, "m3.ndjson")
        cmd = [os.path.join(BUILD, "drive"), "m3", "-out", out, "-stats", os.path.join(work, "st.json"), "-seed", seed, "-runs", runs,
               "-alphabet", "all"] + argv[2:]
        p = run(cmd, timeout=3000, check=False)
        if p.returncode != 0:
            raise Infra("driver failed:\n" + p.stdout[-2000:])
        acc, rej, skipped, states, nev = validate_free(out, work, par=12)
        log("free workloads: %d node traces accepted, %d rejected, %d skipped, %d events, %d states, %.1fs" %
            (acc, len(rej), len(skipped), nev, states, time.time() - t0))
        for hdr, line, why, lines in rej[:10]:
            log("REJECTED run %s node %s at line %d: %s" % (hdr.get("t"), hdr.get("node"), line, why))
            if os.environ.get("VERIF_KEEP"):
                keep = "/tmp/chanfree-s%s-r%s-n%s.ndjson" % (seed, hdr.get("t"), hdr.get("node"))
                with open(keep, "w") as f:
                    for x in lines:
                        f.write(json.dumps(x) + "\n")
                log("  kept " + keep)
        if os.environ.get("VERIF_KEEP") and rej:
            shutil.copy(out, "/tmp/chanfree-s%s.raw.ndjson" % seed)
        return 1 if rej else 0
    finally:
        shutil.rmtree(work, ignore_errors=True)


def main():
    if sys.argv[1] == "free":
        return main_free(sys.argv[2:])
    prop = sys.argv[1]
    only = sys.argv[2] if len(sys.argv) > 2 else None
    build()
    work = scratch("chan")
    try:
        t0 = time.time()
        out = os.path.join(work, "life-all.ndjson")
        cmd = [os.path.join(BUILD, "drive"), "life", "-prop", prop, "-out", os.path.join(work, "life.ndjson"), "-allout", out,
               "-stats", os.path.join(work, "st.json")]
        if only:
            cmd += ["-only", only]
        p = run(cmd, timeout=3000, check=False)
        if p.returncode != 0:
            raise Infra("driver failed:\n" + p.stdout[-2000:])
        acc, rej, skipped, states = validate_file(out, work)
        log("%s: %d scenarios accepted, %d rejected, %d skipped, %d states, %.1fs" %
            (prop, acc, len(rej), len(skipped), states, time.time() - t0))
        for hdr, line, why, lines in rej[:10]:
            log("REJECTED %s:%s node %s at line %d: %s" % (hdr["name"], hdr["kind"], hdr.get("node", 1), line, why))
            if os.environ.get("VERIF_KEEP"):
                keep = "/tmp/chan-%s-%s-n%s.ndjson" % (hdr["name"], hdr["kind"], hdr.get("node", 1))
                with open(keep, "w") as f:
                    for x in lines:
                        f.write(json.dumps(x) + "\n")
                with open(keep.replace(".ndjson", ".raw.ndjson"), "w") as f:
                    for x in hdr.get("raw", []):
                        f.write(json.dumps(x) + "\n")
                log("  kept " + keep)
        for hdr, why in skipped[:40]:
            log("skipped %s:%s (%s)" % (hdr["name"], hdr["kind"], why))
        return 1 if rej else 0
    finally:
        shutil.rmtree(work, ignore_errors=True)


if __name__ == "__main__":
    sys.exit(main())
