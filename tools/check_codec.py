"""C13: wire codec.  TLC enumerates the complete lattice of abstract frames
(Codec.tla transcribes the decoder's case analysis); every abstract frame is
instantiated to concrete bytes and fed to the real decoder under recover; TLC
validates every outcome class against Decode(frame).  Round trips of every
registered method type and arbitrary byte strings are validated alike."""
import json
import os
import re
import shutil
import time

from vlib import BUILD, Infra, build, log, next_replay_path, open_findings, run, scratch, tla_set, tlc, tlc_ok, write_evidence

TIERS = {"quick": (1, 2000, 20), "thorough": (8, 200000, 300)}  # instances per frame, byte strings, round trips
RE_BAD = re.compile(r'<<"BAD", (\d+), (\d+), "(\w+)">>')


def check(prop, tier, seed, replay):
    t0 = time.time()
    work = scratch(prop)
    try:
        build()
        inst, nbytes, rounds = TIERS[tier]
        opens = open_findings(module="Codec")
        devs = sorted(k["key"] for k in opens)
        frames = os.path.join(work, "frames.ndjson")
        if replay:
            rp = json.load(open(replay))
            seed = rp.get("seed", seed)
            inst, nbytes, rounds = rp.get("instances", inst), rp.get("bytes", nbytes), rp.get("rounds", rounds)
        gcfg = "SPECIFICATION Spec\nCONSTANT Devs = %s\nINVARIANT Emit\nCHECK_DEADLOCK FALSE\n" % tla_set(devs)
        gout, ggen, gdist, _ = tlc("CodecGen", gcfg, work, env={"GEN_OUT": frames}, workers=4, timeout=600)
        if not tlc_ok(gout):
            raise Infra("CodecGen failed (model level):\n" + gout[-3000:])
        log("design level: %d abstract frames; Decode is total, never 'panic', encoder frames decode" % gdist)
        trace = os.path.join(work, "trace.ndjson")
        p = run([os.path.join(BUILD, "drive"), "codec", "-frames", frames, "-out", trace, "-seed", str(seed),
                 "-instances", str(inst), "-bytes", str(nbytes), "-rounds", str(rounds)], check=False, timeout=3000)
        if p.returncode != 0:
            raise Infra("driver failed (a crash of the driver is a decoder crash outside recover):\n" + p.stdout[-2000:])
        log(p.stdout.strip())
        tcfg = "SPECIFICATION TSpec\nCONSTANT Devs = %s\nPOSTCONDITION Accepted\nCHECK_DEADLOCK FALSE\n" % tla_set(devs)
        out, tgen, _, _ = tlc("CodecTrace", tcfg, work, env={"TRACE": trace}, workers=1, timeout=3000)
        if '<<"DONE"' not in out:
            raise Infra("trace validation did not finish:\n" + out[-3000:])
        lines = open(trace).read().splitlines()
        bad = [json.loads(lines[int(m.group(1)) - 1]) for m in RE_BAD.finditer(out)]
        known_lines = []
        if devs and not bad:
            out0, _, _, _ = tlc("CodecTrace", tcfg.replace(tla_set(devs), "{}"), work, env={"TRACE": trace}, workers=1,
                                timeout=3000)
            if RE_BAD.search(out0):
                for k in opens:
                    known_lines.append("KNOWN-FINDING: property=%s %s" % (prop, k["what"]))
        if replay:
            if bad:
                log("VIOLATION property=%s replay=%s" % (prop, replay))
                return 1
            log("replay accepted")
            return 0
        reported = []
        for rec in bad[:3]:
            path = next_replay_path(prop)
            json.dump({"property": prop, "seed": seed, "instances": inst, "bytes": nbytes, "rounds": rounds,
                       "rejected": rec}, open(path, "w"), indent=1)
            reported.append(path)
        for kl in known_lines:
            log(kl)
        nframe = sum(1 for x in lines if '"ev":"Frame"' in x)
        nround = sum(1 for x in lines if '"ev":"Round"' in x)
        cov = {"states": gdist, "transitions": ggen, "traces_validated_against_impl": len(lines) - len(bad),
               "evaluations": len(lines), "distinct_nontrivial": gdist,
               "rule": "the complete lattice of abstract frames of Codec.tla (7x2x8x3x6x4 classes) x %d seeded concrete "
                       "instances each, %d arbitrary byte strings (random / mutated valid frames), %d round trips over all "
                       "17 registered methods x both directions; distinct_nontrivial counts the distinct abstract frames "
                       "(all are exercised)" % (inst, nbytes, nround),
               "samples": [json.loads(lines[0]), json.loads(lines[-1])],
               "exhaustive": True, "frames": nframe, "byte_strings": nbytes, "round_trips": nround,
               "explanation": "exhaustive over frame classes; bytes inside a class and message values are sampled",
               "known_findings_reported": known_lines}
        write_evidence(prop, tier, seed, "model_checking", cov, time.time() - t0, len(bad),
                       ["value-level protobuf fidelity is sampled inside each class, not proved",
                        "the decoder runs in-process under recover; a runtime fatal error would kill the driver (exit 2)"])
        if reported:
            for pth in reported:
                log("VIOLATION property=%s replay=%s" % (prop, pth))
            return 1
        log("OK %s %s: %d frames, %d byte strings, %d round trips validated in %.1fs" %
            (prop, tier, nframe, nbytes, nround, time.time() - t0))
        return 0
    finally:
        shutil.rmtree(work, ignore_errors=True)
