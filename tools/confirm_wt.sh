#!/bin/bash
# confirm_wt.sh <worktree> <id> <demo-pkg-dir> <run-regex> : confirm a sub-agent's change in its scratch worktree:
# collect patch + demonstration into /tmp/wt/keep/<id>, show that the demonstration fails with and passes
# without the change, that both build configurations compile and that the repository's suite passes with it.
WT=$1; ID=$2; PKG=$3; RUN=$4
export GOFLAGS=-mod=mod GOPROXY=off GOSUMDB=off GOTOOLCHAIN=local
K=/tmp/wt/keep/$ID; mkdir -p $K/demo
cd $WT || exit 2
git diff > $K/patch.diff
for f in $(git ls-files --others --exclude-standard); do case $f in SEEDED.md) cp $f $K/README-agent.md;; *) mkdir -p $K/demo/$(dirname $f); cp $f $K/demo/$f.txt;; esac; done
echo "== files changed:"; git diff --stat | tail -5
echo "== build:"; go build ./... && go build -tags verif ./... && echo build-ok
echo "== demo WITH change (3x):"; for i in 1 2 3; do timeout 150 go test -vet=off -count=1 -timeout 120s -run "$RUN" $PKG 2>&1 | tail -1; done
git stash -q
echo "== demo WITHOUT change (3x):"; for i in 1 2 3; do timeout 150 go test -vet=off -count=1 -timeout 120s -run "$RUN" $PKG 2>&1 | tail -1; done
git stash pop -q
if [ -z "$SKIPSUITE" ]; then
echo "== suite with change (demo excluded):"
timeout 1500 go test -vet=off -count=1 -timeout 20m $(go list ./... | grep -v testprotos) -skip "$RUN" 2>&1 | grep -v "^ok\|no test files" | tail -15; echo "suite done"
fi
